"""C19 driver: realise a reporting layout as a billing reporting object, predict at the daily level and with the requested
aggregation, and project both as integers for AggTrace.tla."""
from __future__ import annotations

from fractions import Fraction

import numpy as np
import pandas as pd

from . import docs

L = 377580
VARIANTS = ["America/Chicago", "Asia/Kolkata", "Europe/London", "America/Phoenix", "America/Chicago|split", "Asia/Kolkata|split"]
_em = {}
_models = {}


def init():
    import opendsm.eemeter as em
    _em["em"] = em


def _model(tz):
    """`<zone>|split`: a billing model with one sub-model per season, each with its own integer coefficients and uncertainty (a
    bi-monthly period that straddles a season boundary then mixes days of two sub-models)"""
    if tz not in _models:
        zone, _, split = tz.partition("|")
        if split:
            subs = {"fw-su": docs.submodel(docs.coeffs("hdd_tidd_cdd", 10, 50, 1, None, 60, 2, None), f_unc=3.0),
                    "fw-sh": docs.submodel(docs.coeffs("hdd_tidd_cdd", 20, 45, 2, None, 65, 1, None), f_unc=4.0),
                    "fw-wi": docs.submodel(docs.coeffs("hdd_tidd_cdd", 30, 55, 3, None, 70, 4, None), f_unc=5.0)}
        else:
            subs = {"fw-su_sh_wi": docs.submodel(docs.coeffs("hdd_tidd_cdd", 10, 50, 1, None, 60, 2, None), f_unc=3.0)}
        _models[tz] = docs.load(docs.document(subs, tz=zone, profile="legacy", billing=True), billing=True)
    return _models[tz]


def _iv(x):
    """float -> [h, v] with exact-integer check; non-integers give v = -999999 and flag exact False"""
    if not np.isfinite(x):
        return {"h": False, "v": 0}, True
    r = int(round(x))
    return {"h": True, "v": r}, bool(float(r) == x)


def realise(lay, tz):
    em = _em["em"]
    mkey = tz
    tz = tz.partition("|")[0]
    y, m, d = lay["start"]
    n = lay["n"]
    idx = pd.date_range(pd.Timestamp(year=y, month=m, day=d, tz=tz), periods=n, freq="D")
    mi0 = 12 * y + m
    T = np.empty(n)
    obs = np.empty(n)
    for i in range(1, n + 1):
        date = idx[i - 1]
        miss = (lay["gap"] == "every5th" and i % 5 == 0) or (lay["gap"] == "firstWeek" and i <= 7) or \
               (lay["gap"] == "secondMonth" and 12 * date.year + date.month == mi0 + 1)
        T[i - 1] = np.nan if miss else 30 + (7 * i) % 50
        has_o = lay["obs"] != "absent" and not (lay["obs"] == "thirdMissing" and i % 3 == 0)
        obs[i - 1] = float(L * (1 + date.month % 3)) if has_o else np.nan
    cols = {"temperature": T}
    if lay["obs"] != "absent":
        cols["observed"] = obs
    frame = pd.DataFrame(cols, index=idx)
    model = _model(mkey)
    agg = lay["agg"]
    cin = {"agg": agg, "hasObs": False, "obsExact": True, "days": []}
    out = {"res": "ok", "same": True, "hasObs": False, "rows": []}
    try:
        data = em.BillingReportingData(frame, is_electricity_data=False)
        daily = model.predict(data, ignore_disqualification=True)
    except Exception as ex:
        out["res"] = "noobject"
        out["err"] = "%s: %s" % (type(ex).__name__, str(ex)[:200])
        return {"in2": cin, "out": out}
    if len(daily) == 0:
        out["res"] = "noobject"
        out["err"] = "empty data object"
        return {"in2": cin, "out": out}
    cin["hasObs"] = "observed" in daily.columns
    exact = True
    for ts, row in daily.iterrows():
        rec = {"mi": 12 * ts.year + ts.month}
        for name, col in (("pred", "predicted"), ("heat", "heating_load"), ("cool", "cooling_load"), ("temp", "temperature")):
            rec[name], ok = _iv(float(row[col]))
            if not ok:
                out["res"] = "noobject"
                out["err"] = "non-integer %s in the daily rows: realisation is not exact" % name
                return {"in2": cin, "out": out}
        if cin["hasObs"]:
            rec["obs"], ok = _iv(float(row["observed"]))
            exact = exact and ok
        else:
            rec["obs"] = {"h": False, "v": 0}
        u = float(row["predicted_unc"])
        rec["u2"], ok = _iv(u * u if np.isfinite(u) else np.nan)
        cin["days"].append(rec)
    cin["obsExact"] = bool(exact)
    try:
        res = model.predict(data, aggregation=None if agg == "None" else agg, ignore_disqualification=True)
    except Exception as ex:
        out["res"] = type(ex).__name__
        out["err"] = str(ex)[:200]
        return {"in2": cin, "out": out}
    if agg in ("None", "none") or agg not in ("monthly", "bimonthly"):
        try:
            out["same"] = bool(res.index.equals(daily.index) and list(res.columns) == list(daily.columns)
                               and all(((res[c] == daily[c]) | (res[c].isna() & daily[c].isna())).all() for c in res.columns))
        except Exception:
            out["same"] = False
        return {"in2": cin, "out": out}
    out["hasObs"] = "observed" in res.columns
    for ts, row in res.iterrows():
        r = {"mi": 12 * ts.year + ts.month if (ts.day == 1 and ts.hour == 0) else -1}
        for name, col in (("pred", "predicted"), ("heat", "heating_load"), ("cool", "cooling_load")):
            v = float(row[col])
            r[name] = int(round(v)) if np.isfinite(v) and float(int(round(v))) == v else -999999
        if out["hasObs"]:
            v = float(row["observed"])
            r["obs"] = int(round(v)) if np.isfinite(v) and float(int(round(v))) == v else -999999
        else:
            r["obs"] = 0
        t = float(row["temperature"])
        if np.isfinite(t):
            fr = Fraction(t).limit_denominator(1000)
            r["tn"], r["td"], r["tok"] = fr.numerator, fr.denominator, bool(abs(float(fr) - t) <= 1e-9 * max(1.0, abs(t)))
        else:
            r["tn"], r["td"], r["tok"] = 0, 0, True
        u = float(row["predicted_unc"])
        u2 = u * u if np.isfinite(u) else 0.0
        r["u2"] = int(round(u2))
        r["u2ok"] = bool(abs(u2 - round(u2)) <= 1e-6)
        out["rows"].append(r)
    return {"in2": cin, "out": out}


def nontrivial(cin, out):
    return out["res"] != "noobject" and (len(out.get("rows", [])) > 1 or out["res"] != "ok")


def corruptions(cin, out):
    import copy
    if out["res"] == "ok" and out["rows"]:
        k = len(out["rows"]) // 2
        for f in ("pred", "heat", "cool", "u2", "tn"):
            o = copy.deepcopy(out); o["rows"][k][f] += 1; yield f, o
        if cin["hasObs"] and cin["obsExact"]:
            o = copy.deepcopy(out); o["rows"][k]["obs"] += 1; yield "obs", o
        o = copy.deepcopy(out); o["rows"] = o["rows"][:-1]; yield "dropPeriod", o
        o = copy.deepcopy(out); o["rows"][k]["mi"] += 1; yield "shiftPeriod", o
    elif out["res"] == "ok":
        o = copy.deepcopy(out); o["same"] = False; yield "same", o
    elif out["res"] != "noobject":
        o = copy.deepcopy(out); o["res"] = "ok"; yield "accepted", o
