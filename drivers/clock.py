"""C06 (hourly) driver.  fn-level: the real _get_dst_indices + _transform_dst on frames assembled from real clock days of a
zone, with slot-number codes as the 'prediction', decoded back to (day, hour) labels.  api-level: HourlyModel.predict on a real
contiguous frame around a real transition, with a model fitted in that zone."""
from __future__ import annotations

import datetime as dt

import numpy as np
import pandas as pd

# zone class -> (tz, {kind: real local date}); dates verified against zoneinfo at import of this table by `witness_ok`
ZONES = {
    "chicago": ("America/Chicago", {("S", 2): "2020-03-08", ("F", 1): "2020-11-01"}),
    "newyork": ("America/New_York", {("S", 2): "2020-03-08", ("F", 1): "2020-11-01"}),
    "london": ("Europe/London", {("S", 1): "2020-03-29", ("F", 1): "2020-10-25"}),
    "havana": ("America/Havana", {("S", 0): "2020-03-08", ("F", 0): "2020-11-01"}),
    "saopaulo": ("America/Sao_Paulo", {("S", 0): "2018-11-04", ("F", 23): "2018-02-17"}),
}
NORMAL_POOL = ["-05-04", "-05-05", "-05-06", "-05-07", "-05-08", "-05-11", "-05-12"]
_st = {"models": {}}


def init():
    import opendsm.eemeter as em
    from opendsm.eemeter.models.hourly import model as hm
    _st["em"] = em
    _st["hm"] = hm


def local_day_index(tz, date, utc_aligned=False):
    """every real clock hour of the local date as a tz-aware index.  Hours are stepped in absolute time from a local noon
    (which always exists), so they are on the hour in local time and skipped / repeated hours are real; with utc_aligned the
    hours are those of UTC (what a meter logging on UTC hours delivers in a zone with a :30 offset)."""
    d = pd.Timestamp(date)
    if utc_aligned:
        loc = pd.date_range(d - pd.Timedelta(hours=30), d + pd.Timedelta(hours=54), freq="h", tz="UTC").tz_convert(tz)
    else:
        start = (d - pd.Timedelta(days=2) + pd.Timedelta(hours=12)).tz_localize(tz)
        loc = pd.date_range(start, periods=96, freq="h")
    return loc[loc.date == d.date()]


def classify(tz, date):
    idx = local_day_index(tz, date)
    if len(idx) == 24 and list(idx.hour) == list(range(24)) and all(m == 0 for m in idx.minute):
        return ("N", 0)
    if any(m != 0 for m in idx.minute):
        return ("X", 0)
    hrs = list(idx.hour)
    if len(idx) == 23:
        miss = sorted(set(range(24)) - set(hrs))
        return ("S", miss[0]) if len(miss) == 1 else ("X", 0)
    if len(idx) == 25:
        rep = [h for h in set(hrs) if hrs.count(h) == 2]
        return ("F", rep[0]) if len(rep) == 1 and len(set(hrs)) == 24 else ("X", 0)
    return ("X", 0)


def _dates_for(zone, days):
    tz, wit = ZONES[zone]
    year = list(wit.values())[0][:4]
    dates = []
    pool = iter(NORMAL_POOL)
    for d in days:
        if d["k"] == "N":
            dates.append(year + next(pool))
        else:
            dates.append(wit[(d["k"], d["h"])])
    return tz, dates


def _fn(cin):
    hm = _st["hm"]
    tz = ZONES[cin["zone"]][0]
    dates = _chronological(cin, tz)
    idx = None
    for date in dates:
        part = local_day_index(tz, date)
        idx = part if idx is None else idx.append(part)
    df = pd.DataFrame({"observed": 1.0, "temperature": 50.0}, index=idx)
    out = {"res": "ok", "labels": []}
    try:
        di = hm._get_dst_indices(df)
        pred = np.arange(24.0 * len(dates))
        res = hm._transform_dst(pred, di)
    except Exception as ex:
        out["res"] = type(ex).__name__
        out["err"] = str(ex)[:200]
        return out
    for v in np.asarray(res, dtype=float):
        j = int(np.floor(v))
        out["labels"].append({"d": j // 24 + 1, "h": j % 24, "half": bool(v != j)})
    return out


def _chronological(cin, tz):
    """dates in increasing order realising the kind sequence: transitions keep their real dates only if already ordered;
    otherwise use the same transition kinds from other years"""
    zone = cin["zone"]
    _, wit = ZONES[zone]
    dates = []
    cur = pd.Timestamp("2001-01-10")
    for d in cin["days"]:
        if d["k"] == "N":
            cur = cur + pd.Timedelta(days=1)
            while classify(tz, cur.strftime("%Y-%m-%d")) != ("N", 0):
                cur = cur + pd.Timedelta(days=1)
        else:
            want = (d["k"], d["h"])
            probe = cur + pd.Timedelta(days=1)
            for _ in range(366 * 25):
                if classify(tz, probe.strftime("%Y-%m-%d")) == want:
                    break
                probe = probe + pd.Timedelta(days=1)
            else:
                raise RuntimeError("no later witness for %s in %s" % (want, tz))
            cur = probe
        dates.append(cur.strftime("%Y-%m-%d"))
    return dates


def synth(idx, seed):
    rng = np.random.default_rng(seed)
    T = 55 + 20 * np.sin(2 * np.pi * (idx.dayofyear.to_numpy() - 110) / 365.0) + 8 * np.sin(2 * np.pi * (idx.hour.to_numpy() - 9) / 24.0) + rng.normal(0, 2, len(idx))
    obs = 1 + 0.05 * np.maximum(50 - T, 0) + 0.08 * np.maximum(T - 65, 0) + 0.4 * ((idx.hour.to_numpy() > 7) & (idx.hour.to_numpy() < 20)) + rng.normal(0, 0.1, len(idx))
    return T, obs


def model_for(tz, year):
    key = (tz, year)
    if key not in _st["models"]:
        em = _st["em"]
        start = pd.Timestamp("%d-01-01" % year, tz=tz)
        idx = pd.date_range(start.tz_convert("UTC"), periods=365 * 24, freq="h").tz_convert(tz)
        T, obs = synth(idx, 1)
        b = em.HourlyBaselineData(pd.DataFrame({"temperature": T, "observed": obs}, index=idx), is_electricity_data=True)
        _st["models"][key] = em.HourlyModel(settings=em.HourlyNonSolarSettings(seed=1)).fit(b, ignore_disqualification=True)
    return _st["models"][key]


def _api(cin, tzname=None, date=None):
    em = _st["em"]
    days = cin["days"]
    if tzname is None:
        tz, wit = ZONES[cin["zone"]]
        pos = [k for k, d in enumerate(days) if d["k"] != "N"]
        if pos:
            wd = pd.Timestamp(wit[(days[pos[0]]["k"], days[pos[0]]["h"])])
            first = wd - pd.Timedelta(days=pos[0])
        else:
            first = pd.Timestamp(list(wit.values())[0][:4] + "-06-10")
    else:
        tz = tzname
        first = pd.Timestamp(date) - pd.Timedelta(days=[k for k, d in enumerate(days) if d["k"] != "N"][0])
    idx = None
    for k in range(len(days)):
        part = local_day_index(tz, (first + pd.Timedelta(days=k)).strftime("%Y-%m-%d"), utc_aligned=cin.get("utc_aligned", False))
        idx = part if idx is None else idx.append(part)
    T, obs = synth(idx, 2)
    cols = {"temperature": T}
    if cin["obs"] == "present":
        cols["observed"] = obs
    elif cin["obs"] == "blank":
        cols["observed"] = np.full(len(idx), np.nan)
    out = {"res": "ok", "rows_ok": True, "nonfinite": 0, "nrows": 0}
    try:
        model = model_for(tz, first.year - 1)
    except Exception as ex:
        out["res"] = "FitFailed:" + type(ex).__name__
        out["err"] = str(ex)[:200]
        return out
    try:
        data = em.HourlyReportingData(pd.DataFrame(cols, index=idx), is_electricity_data=True)
        out["nrows"] = int(len(data.df))
        res = model.predict(data, ignore_disqualification=True)
    except Exception as ex:
        out["res"] = type(ex).__name__
        out["err"] = str(ex)[:200]
        return out
    out["rows_ok"] = bool(res.index.equals(data.df.index) and res.index.equals(idx) and res.index.is_monotonic_increasing)
    out["nonfinite"] = int((~np.isfinite(res["predicted"].to_numpy(dtype=float))).sum())
    return out


def realise(cin, variant):
    if isinstance(variant, dict):       # IANA sweep case: {"tz":..., "date":...}
        if cin["lvl"] == "fn":
            return _fn_real(cin, variant["tz"], variant["date"])
        return _api(cin, variant["tz"], variant["date"])
    if cin.get("prior", "none") != "none":
        # the same local dates in a zone with the same offsets were processed just before, in this process
        twin = dict(cin, zone=cin["prior"], prior="none")
        tk = {"havana": {2: 0, 1: 0}, "newyork": {0: 2}}       # map the hour of each kind to the twin zone's hour
        days = []
        for d in cin["days"]:
            if d["k"] == "N":
                days.append(d)
            elif cin["prior"] == "newyork":
                days.append({"k": d["k"], "h": 2 if d["k"] == "S" else 1})
            else:
                days.append({"k": d["k"], "h": 0})
        twin["days"] = days
        try:
            _fn(twin) if cin["lvl"] == "fn" else _api(twin)
        except Exception:
            pass
    return _fn(cin) if cin["lvl"] == "fn" else _api(cin)


def _fn_real(cin, tz, date):
    """normalisation step on [day-1, day, day+1] of a real zone and date"""
    hm = _st["hm"]
    d = pd.Timestamp(date)
    idx = None
    for k in (-1, 0, 1):
        part = local_day_index(tz, (d + pd.Timedelta(days=k)).strftime("%Y-%m-%d"))
        idx = part if idx is None else idx.append(part)
    df = pd.DataFrame({"observed": 1.0, "temperature": 50.0}, index=idx)
    out = {"res": "ok", "labels": []}
    try:
        di = hm._get_dst_indices(df)
        res = hm._transform_dst(np.arange(72.0), di)
    except Exception as ex:
        out["res"] = type(ex).__name__
        out["err"] = str(ex)[:200]
        return out
    for v in np.asarray(res, dtype=float):
        j = int(np.floor(v))
        out["labels"].append({"d": j // 24 + 1, "h": j % 24, "half": bool(v != j)})
    return out


def iana_transitions(y0=2000, y1=2037):
    """(tz, date, kind) for every local day 2000-2037 of every IANA zone that is not a plain 24-hour day"""
    import zoneinfo
    out = []
    for tz in sorted(zoneinfo.available_timezones()):
        if tz.startswith(("Etc/", "SystemV/")) or tz in ("localtime", "Factory"):
            continue
        try:
            z = zoneinfo.ZoneInfo(tz)
        except Exception:
            continue
        # offsets sampled at local noon of each day; a change between consecutive days marks a transition day
        prev = None
        day = dt.date(y0, 1, 1)
        end = dt.date(y1, 12, 31)
        offs = []
        while day <= end:
            o = dt.datetime(day.year, day.month, day.day, 12, tzinfo=z).utcoffset()
            offs.append((day, o))
            day += dt.timedelta(days=1)
        for (d0, o0), (d1, o1) in zip(offs, offs[1:]):
            if o0 != o1:
                for cand in (d0, d1):
                    k = classify(tz, cand.isoformat())
                    if k != ("N", 0):
                        out.append((tz, cand.isoformat(), k))
    seen = set()
    uniq = []
    for t in out:
        if t[:2] not in seen:
            seen.add(t[:2])
            uniq.append(t)
    return uniq


def nontrivial(cin, out):
    return any(d["k"] != "N" for d in cin["days"])


def corruptions(cin, out):
    import copy
    if cin["lvl"] == "fn" and out["res"] == "ok" and out["labels"]:
        o = copy.deepcopy(out); o["labels"] = o["labels"][:-1]; yield "dropValue", o
        o = copy.deepcopy(out); o["labels"] = o["labels"] + [o["labels"][-1]]; yield "dupValue", o
        k = len(out["labels"]) // 2
        o = copy.deepcopy(out); o["labels"][k]["h"] = (o["labels"][k]["h"] + 1) % 24; yield "shiftValue", o
        o = copy.deepcopy(out); o["res"] = "IndexError"; yield "raises", o
    if cin["lvl"] == "api" and out["res"] == "ok":
        o = copy.deepcopy(out); o["rows_ok"] = False; yield "rows", o
        o = copy.deepcopy(out); o["nonfinite"] = 1; yield "nonfinite", o
        o = copy.deepcopy(out); o["nrows"] += 1; yield "nrows", o
        o = copy.deepcopy(out); o["res"] = "ValueError"; yield "raises", o
