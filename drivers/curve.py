"""C11 driver: predict() sweeps over constructed sub-model documents; the predicted curve is projected to floor / ceiling of
1000 x value, an exact rational where it is one, and load flags measured on the doubles."""
from __future__ import annotations

import math
from fractions import Fraction

import numpy as np
import pandas as pd

from . import docs

_st = {}
TZS = ["America/Chicago", "Asia/Kolkata"]


def init():
    import opendsm.eemeter as em
    _st["em"] = em


def fr(q):
    return Fraction(q[0], q[1])


def realise(cin, variant):
    em = _st["em"]
    billing = variant.startswith("billing")
    tz = variant.split(":")[1]
    f = lambda name: float(fr(cin[name]))
    mt = cin["mt"]
    kw = {}
    if mt in ("hdd_tidd_cdd_smooth", "hdd_tidd_cdd", "hdd_tidd_smooth", "hdd_tidd"):
        kw.update(hbp=f("hbp"), hb=f("hb"))
        if mt.endswith("smooth"):
            kw["hk"] = f("hk")
    if mt in ("hdd_tidd_cdd_smooth", "hdd_tidd_cdd", "tidd_cdd_smooth", "tidd_cdd"):
        kw.update(cbp=f("cbp"), cb=f("cb"))
        if mt.endswith("smooth"):
            kw["ck"] = f("ck")
    co = docs.coeffs(mt, f("c"), **kw)
    seg_lo, seg_hi = -70.0, 150.0
    order = None
    for o in ("sorted", "reversed"):
        if variant.endswith(":" + o):
            order, variant = o, variant[: -len(o) - 1]
    if variant.endswith(":seg"):
        # a fit parks a balance point ON its segment bound when usage depends on temperature over the whole fitted range:
        # the recorded segment limits coincide with the stored balance points (the outer limits stay beyond the probes)
        bps = [kw[k] for k in ("hbp", "cbp") if k in kw]
        if "hbp" in kw and "cbp" in kw:
            seg_lo, seg_hi = kw["hbp"], kw["cbp"]
        elif "hbp" in kw:
            seg_hi = kw["hbp"]
        elif "cbp" in kw:
            seg_lo = kw["cbp"]
    doc = docs.document({"fw-su_sh_wi": docs.submodel(co, T_min=-80.0, T_max=160.0, T_min_seg=seg_lo, T_max_seg=seg_hi, f_unc=1.5)}, tz=tz,
                        profile="current" if mt.endswith("smooth") and not billing else "legacy", billing=billing)
    out = {"res": "ok", "rows": []}
    try:
        model = docs.load(doc, billing=billing, order=order)
        T = np.array([float(fr(p)) for p in cin["probes"]])
        idx = pd.date_range(pd.Timestamp("2021-05-03", tz=tz), periods=len(T), freq="D")
        C = em.BillingReportingData if billing else em.DailyReportingData
        data = C(pd.DataFrame({"temperature": T}, index=idx), is_electricity_data=False) if not billing else \
            em.BillingReportingData.from_series(None, pd.Series(T, index=idx, name="temperature"), is_electricity_data=False, tzinfo=idx.tz)
        res = model.predict(data, ignore_disqualification=True)
    except Exception as ex:
        out["res"] = type(ex).__name__
        out["err"] = str(ex)[:300]
        return out
    if not res.index.equals(idx) or not np.array_equal(res["temperature"].to_numpy(dtype=float), T):
        out["res"] = "RowsDiffer"
        return out
    # C01 on constructed documents (all seven shapes, both profiles): stored again and read back, the model predicts the same bytes
    # and re-serialises to the same document
    import json as _json
    rt = {"ok": False, "predSame": False, "docSame": False}
    try:
        text = model.to_json()
        m2 = type(model).from_json(text)
        res2 = m2.predict(data, ignore_disqualification=True)
        rt["ok"] = True
        rt["predSame"] = bool(res2.index.equals(res.index) and all(
            np.array_equal(res2[c].to_numpy(dtype=float), res[c].to_numpy(dtype=float), equal_nan=True) for c in ("predicted", "predicted_unc", "heating_load", "cooling_load")))
        rt["docSame"] = bool(_json.loads(m2.to_json()) == _json.loads(text))
    except Exception as ex:
        rt["err"] = "%s: %s" % (type(ex).__name__, str(ex)[:160])
    out["rt"] = rt
    c = f("c")
    E = res["predicted"].to_numpy(dtype=float)
    H = res["heating_load"].to_numpy(dtype=float)
    Cl = res["cooling_load"].to_numpy(dtype=float)
    for k in range(len(T)):
        e, h, cl = float(E[k]), float(H[k]), float(Cl[k])
        if not np.isfinite(e):
            out["rows"].append({"fl": -10 ** 8, "ce": -10 ** 8, "en": 0, "ed": 1, "eok": False, "loadsOk": False, "heatOnly": False, "coolOnly": False})
            continue
        q = Fraction(e).limit_denominator(4096)
        eok = float(q) == e and abs(q.numerator) < 10 ** 6
        ulp = 4 * np.spacing(max(abs(e), abs(c), 1.0))
        loads = bool(h >= 0 and cl >= 0 and (h == 0 or cl == 0) and abs((c + h + cl) - e) <= ulp)
        out["rows"].append({"fl": int(math.floor(e * 1000 - 1e-6)), "ce": int(math.ceil(e * 1000 + 1e-6)),
                            "en": q.numerator if eok else 0, "ed": q.denominator if eok else 1, "eok": bool(eok), "loadsOk": loads,
                            "heatOnly": bool(cl == 0 and abs(h - (e - c)) <= ulp), "coolOnly": bool(h == 0 and abs(cl - (e - c)) <= ulp)})
    return out


def nontrivial(cin, out):
    return cin["mt"] != "tidd"


def corruptions(cin, out):
    import copy
    if out["res"] != "ok" or not out["rows"]:
        return
    k = 0
    o = copy.deepcopy(out); o["rows"][k]["fl"] += 45000; o["rows"][k]["ce"] += 45000; o["rows"][k]["en"] += o["rows"][k]["ed"] * 45; yield "valueUp", o
    o = copy.deepcopy(out); o["rows"][-1]["fl"] -= 9000; o["rows"][-1]["ce"] -= 9000; o["rows"][-1]["eok"] = False; yield "valueDown", o
    o = copy.deepcopy(out); o["rows"][len(o["rows"]) // 2]["loadsOk"] = False; yield "loads", o
    o = copy.deepcopy(out); o["rows"] = o["rows"][:-1]; yield "dropRow", o
    o = copy.deepcopy(out); o["rt"]["predSame"] = False; yield "roundTripPred", o
    o = copy.deepcopy(out); o["rt"]["docSame"] = False; yield "roundTripDoc", o
