"""Constructed model documents: DailyModel / BillingModel objects built with from_dict from chosen coefficients (no fitting)."""
from __future__ import annotations

import numpy as np


def settings_dump(profile="current", overrides=None):
    from opendsm.eemeter.models.daily.utilities.settings import DailySettings, DailyLegacySettings
    cls = DailyLegacySettings if profile in ("legacy", "billing") else DailySettings
    kw = dict(overrides or {})
    s = cls(**kw) if kw else cls()
    d = s.model_dump()
    return d


def coeffs(model_type, c, hbp=None, hb=None, hk=None, cbp=None, cb=None, ck=None):
    return {"model_type": model_type, "intercept": float(c),
            "hdd_bp": None if hbp is None else float(hbp), "hdd_beta": None if hb is None else float(hb), "hdd_k": None if hk is None else float(hk),
            "cdd_bp": None if cbp is None else float(cbp), "cdd_beta": None if cb is None else float(cb), "cdd_k": None if ck is None else float(ck)}


def submodel(co, T_min=-50.0, T_max=150.0, T_min_seg=-40.0, T_max_seg=140.0, f_unc=2.0):
    return {"coefficients": co, "temperature_constraints": {"T_min": float(T_min), "T_max": float(T_max), "T_min_seg": float(T_min_seg), "T_max_seg": float(T_max_seg)}, "f_unc": float(f_unc)}


def document(submodels, tz="America/Chicago", profile="current", overrides=None, billing=False):
    st = settings_dump(profile, overrides)
    if billing:
        st["developer_mode"] = True
    return {"submodels": submodels,
            "info": {"error": {"wRMSE": 1.0, "RMSE": 1.0, "MAE": 1.0, "CVRMSE": 0.1, "PNRMSE": 0.1}, "baseline_timezone": tz, "disqualification": [], "warnings": []},
            "settings": st}


def reorder(doc, how):
    """the same JSON value with the members of every object in another order (a JSON object is unordered: a document that
    went through a key-sorting serialiser or a jsonb column is the same document)"""
    if isinstance(doc, dict):
        keys = sorted(doc) if how == "sorted" else list(reversed(list(doc)))
        return {k: reorder(doc[k], how) for k in keys}
    if isinstance(doc, list):
        return [reorder(x, how) for x in doc]
    return doc


def load(doc, billing=False, order=None):
    import json
    import opendsm.eemeter as em
    cls = em.BillingModel if billing else em.DailyModel
    if order:
        return cls.from_json(json.dumps(reorder(doc, order)))
    return cls.from_dict(doc)
