"""C12 driver: real daily / billing fits; every component (candidate components and the sub-models of the chosen split) is
projected to order / sign relations evaluated on the doubles."""
from __future__ import annotations

import numpy as np
import pandas as pd

from . import lifecat, split as splitdrv

_st = {}


def init():
    import opendsm.eemeter as em
    _st["em"] = em


def dataset(name, fam):
    if name in ("good", "other"):
        return lifecat.build("daily" if fam == "daily" else "billing", "baseline", name)
    if name in ("regimes", "weekend", "flat"):
        return splitdrv._dataset(name)
    days = 330 if name == "short330" else 365
    idx, T = lifecat.daily_weather("2019-01-01", days, "America/Chicago", "fit" + name)
    rng = np.random.default_rng(abs(hash(name)) % 1000 + 3)
    if name == "heatonly":
        obs = 12 + 1.3 * np.maximum(58 - T, 0) + rng.normal(0, 1.0, days)
    elif name == "coolonly":
        obs = 18 + 2.1 * np.maximum(T - 62, 0) + rng.normal(0, 1.0, days)
    elif name == "noisy":
        obs = 30 + 0.8 * np.maximum(50 - T, 0) + 1.1 * np.maximum(T - 68, 0) + rng.normal(0, 8.0, days)
    elif name == "outliers":
        obs = 25 + 1.0 * np.maximum(52 - T, 0) + 1.6 * np.maximum(T - 66, 0) + rng.normal(0, 1.0, days)
        obs[rng.choice(days, 12, replace=False)] *= 4.0
    elif name == "mild":            # balance points near the ends of the temperature range
        obs = 20 + 0.9 * np.maximum(35 - T, 0) + 1.2 * np.maximum(T - 78, 0) + rng.normal(0, 0.8, days)
    elif name == "levelshift":      # a persistent base-load step half way and little noise: residuals with very strong positive lag-1 autocorrelation
        obs = 20 + 1.1 * np.maximum(55 - T, 0) + 40.0 * (np.arange(days) >= 180) + rng.normal(0, 0.5, days)
    elif name == "latecool":        # cooling only switches on during the 3 hottest days: the balance point is parked on its segment bound
        obs = 20 + 1.2 * np.maximum(50 - T, 0) + 6.0 * np.maximum(T - np.sort(T)[-4], 0) + rng.normal(0, 1.0, days)
    elif name == "lateheat":        # mirror image: heating only on the 3 coldest days
        obs = 20 + 6.0 * np.maximum(np.sort(T)[3] - T, 0) + 1.2 * np.maximum(T - 65, 0) + rng.normal(0, 1.0, days)
    elif name == "summerzero":      # a heating-only gas meter: exactly 0 from June to September except five isolated days (two of them at a weekend)
        obs = np.clip(0.9 * np.maximum(62 - T, 0) * (1 + rng.normal(0, 0.12, days)) + rng.normal(0, 0.6, days), 0, None)
        obs[np.isin(idx.month, [6, 7, 8, 9])] = 0.0
        for day in ("2019-06-11", "2019-07-06", "2019-07-24", "2019-08-18", "2019-09-03"):
            obs[idx.get_loc(pd.Timestamp(day, tz="America/Chicago"))] = 1.0
        return pd.DataFrame({"temperature": T, "observed": obs}, index=idx), {"is_electricity_data": False}
    elif name.startswith("vshape"):  # heating and cooling meet in one point (no flat band), the two slopes differ
        hb, cb, bp = {"vshape": (1.6, 0.7, 60.0), "vshape2": (0.6, 2.2, 55.0), "vshape3": (2.5, 1.0, 65.0)}[name]
        obs = 15 + hb * np.maximum(bp - T, 0) + cb * np.maximum(T - bp, 0) + rng.normal(0, 1.0, days)
    elif name == "inverted":        # usage peaks in mild weather and falls towards both temperature extremes: the initial guess finds no
        obs = 45 - 0.5 * np.abs(T - 60) + rng.normal(0, 1.0, days)      # heating or cooling slope at all
    elif name.startswith("flatn"):  # temperature-independent usage; the noise decides the sign of the trend at either end
        obs = 30 + np.random.default_rng(int(name[5:])).normal(0, 2.0, days)
    else:                           # short330
        obs = 22 + 1.1 * np.maximum(55 - T, 0) + 1.4 * np.maximum(T - 65, 0) + rng.normal(0, 1.0, days)
    return pd.DataFrame({"temperature": T, "observed": np.maximum(obs, 0.1)}, index=idx), {"is_electricity_data": True}


def raw_class(comp):
    x = getattr(comp, "_verif_x_raw", None)
    key = getattr(comp, "_verif_key_raw", None)
    if x is None:
        return "nohook"
    lo, hi = comp.T_min_seg, comp.T_max_seg
    eps = 1e-9
    if key == "hdd_tidd_cdd_smooth":
        hbp, hb, hk, cbp, cb, ck = x[:6]
        if cbp < hbp:
            return "crossed"
        if (hb == 0 and hk >= 0.01) or (cb == 0 and ck >= 0.01):
            return "deadSideK"
        if (abs(cbp - hi) <= eps or abs(hbp - lo) <= eps or cbp >= comp.T_max or hbp <= comp.T_min) and (hk >= 0.01 or ck >= 0.01):
            return "bpOnBound"
        return "inBox"
    if key == "hdd_tidd_cdd":
        return "crossed" if x[2] < x[0] else "inBox"
    if key in ("c_hdd_tidd", "c_hdd_tidd_smooth"):
        return "clampedSingle" if (x[0] < lo - eps or x[0] > hi + eps) else "inBox"
    return "inBox"


def project(cid, comp, final, segmin, given=None):
    nc = comp.named_coeffs
    d = nc.model_dump()
    mtype = nc.model_type.value if hasattr(nc.model_type, "value") else str(nc.model_type)
    names = ["hdd_bp", "hdd_beta", "hdd_k", "cdd_bp", "cdd_beta", "cdd_k"]
    present = [n for n in names if d.get(n) is not None]
    vals = [d[n] for n in present] + [d["intercept"]]
    finite = bool(all(np.isfinite(v) for v in vals))
    hbp, cbp = d.get("hdd_bp"), d.get("cdd_bp")
    T = np.asarray(comp.T, dtype=float)
    obs = np.asarray(comp.obs, dtype=float)
    bp_ordered = True if (hbp is None or cbp is None) else bool(hbp <= cbp)
    bp_in = all(T.min() <= b <= T.max() for b in (hbp, cbp) if b is not None)
    hb, cb = d.get("hdd_beta"), d.get("cdd_beta")
    signs = True
    if mtype in ("hdd_tidd", "hdd_tidd_smooth"):
        signs = hb is not None and hb < 0
    elif mtype in ("tidd_cdd", "tidd_cdd_smooth"):
        signs = cb is not None and cb > 0
    elif mtype in ("hdd_tidd_cdd", "hdd_tidd_cdd_smooth"):
        signs = hb is not None and cb is not None and hb > 0 and cb > 0
    nonzero = all(v != 0 for v in (hb, cb) if v is not None)
    kk = [v for v in (d.get("hdd_k"), d.get("cdd_k")) if v is not None]
    knn = all(v >= 0 for v in kk)
    base_in = bool(obs.min() <= d["intercept"] <= obs.max())
    func = bool(np.isfinite(comp.f_unc) and comp.f_unc >= 0)
    n = int(segmin)
    limits = bool(comp.T_min == T.min() and comp.T_max == T.max() and comp.T_min_seg == np.partition(T, n)[n] and comp.T_max_seg == np.partition(T, -n)[-n])
    ev = comp.eval(T)[0]
    scale = max(1.0, float(np.max(np.abs(comp.model))))
    curve = bool(np.max(np.abs(ev - comp.model)) <= 1e-9 * scale)
    own = True
    if given is not None:       # every (temperature, usage) day the component was fitted on is a day of the baseline handed to this fit
        own = bool(np.isin(np.round(T, 9), given[0]).all() and np.isin(np.round(obs, 9), given[1]).all())
    return {"id": cid, "final": bool(final), "ownData": own, "mtype": mtype, "present": present, "finite": finite, "bpOrdered": bp_ordered, "bpInRange": bool(bp_in),
            "slopeSigns": bool(signs), "slopesNonZero": bool(nonzero), "kNonNeg": bool(knn), "baseInRange": base_in, "funcOk": func, "limitsOk": limits,
            "curveOk": curve, "rawClass": raw_class(comp), "key": comp.model_key, "maxdiff": float(np.max(np.abs(ev - comp.model)))}


def realise(cin, variant):
    em = _st["em"]
    out = {"res": "ok", "comps": []}
    try:
        frame, kw = dataset(cin["name"], cin["fam"])
        if cin["fam"] == "billing":
            b = em.BillingBaselineData(frame, **kw)
            m = em.BillingModel()
        else:
            b = em.DailyBaselineData(frame, **kw)
            m = em.DailyModel() if cin["prof"] == "current" else em.DailyModel(model="legacy")
        if cin.get("prior", "none") != "none":
            pf, pkw = dataset(cin["prior"], cin["fam"])
            m.fit((em.BillingBaselineData if cin["fam"] == "billing" else em.DailyBaselineData)(pf, **pkw), ignore_disqualification=True)
        m.fit(b, ignore_disqualification=True)
        segmin = m.settings.segment_minimum_count
        bdf = b.df
        given = (np.round(bdf["temperature"].dropna().to_numpy(dtype=float), 9), np.round(bdf["observed"].dropna().to_numpy(dtype=float), 9))
        for name, comp in m.fit_components.items():
            out["comps"].append(project("cand:" + name, comp, False, segmin, given))
        for name, comp in m.model.items():
            out["comps"].append(project("final:" + name, comp, True, segmin, given))
    except Exception as ex:
        import traceback
        out["res"] = type(ex).__name__
        out["err"] = (str(ex) + traceback.format_exc())[-400:]
    return out


def nontrivial(cin, out):
    return any(c["mtype"] != "tidd" for c in out.get("comps", []))


def corruptions(cin, out):
    import copy
    if out["res"] != "ok" or not out["comps"]:
        return
    for f in ("ownData", "finite", "bpOrdered", "bpInRange", "slopeSigns", "slopesNonZero", "kNonNeg", "baseInRange", "funcOk", "limitsOk", "curveOk"):
        o = copy.deepcopy(out); o["comps"][-1][f] = not o["comps"][-1][f]
        if not o["comps"][-1][f]:
            yield f, o
    o = copy.deepcopy(out); o["comps"][-1]["present"] = o["comps"][-1]["present"] + ["hdd_k"] if "hdd_k" not in o["comps"][-1]["present"] else o["comps"][-1]["present"][:-1]; yield "present", o
