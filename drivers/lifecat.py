"""Catalogue of concrete datasets behind the abstract ids used by the Lifecycle specification.
An id is `<fam>/<name>`; every builder is deterministic.  The attributes the specification needs (family, timezone,
disqualification names, calendar coverage) are *measured* on the real data object at `make` time, not asserted here."""
from __future__ import annotations

import numpy as np
import pandas as pd

TZ = "America/Chicago"
TZ_OTHER = "America/New_York"
OBS_VARIANTS = ["orig", "x3", "shuffled", "partnan", "partzero", "allnan", "absent"]


def _rng(tag):
    import hashlib
    return np.random.default_rng(int.from_bytes(hashlib.sha256(tag.encode()).digest()[:8], "big"))


def daily_weather(start, days, tz, tag):
    idx = pd.date_range(pd.Timestamp(start, tz=tz), periods=days, freq="D")
    doy = idx.dayofyear.to_numpy()
    T = 55 + 25 * np.sin(2 * np.pi * (doy - 110) / 365.0) + _rng("T" + tag).normal(0, 4, days)
    return idx, T


def hourly_weather(start, days, tz, tag):
    idx = pd.date_range(pd.Timestamp(start, tz=tz), pd.Timestamp(start, tz=tz) + pd.Timedelta(days=days) - pd.Timedelta(hours=1), freq="h")
    doy = idx.dayofyear.to_numpy()
    hr = idx.hour.to_numpy()
    T = 55 + 25 * np.sin(2 * np.pi * (doy - 110) / 365.0) + 8 * np.sin(2 * np.pi * (hr - 9) / 24.0) + _rng("T" + tag).normal(0, 2, len(idx))
    return idx, T


def daily_usage(T, idx, curve, noise, tag):
    c, hb, hbp, cb, cbp = curve
    base = c + hb * np.maximum(hbp - T, 0) + cb * np.maximum(T - cbp, 0)
    we = np.isin(idx.dayofweek.to_numpy(), [5, 6])
    return base * np.where(we, 0.9, 1.0) + _rng("U" + tag).normal(0, noise, len(T))


def hourly_usage(T, idx, curve, noise, tag):
    c, hb, hbp, cb, cbp = curve
    hr = idx.hour.to_numpy()
    occ = ((hr > 7) & (hr < 21)).astype(float)
    # two (month, weekday) combinations have a load shape of their own (a night shift on July Sundays, a midday dip on February
    # Wednesdays): small temporal clusters, which the clustering options may merge or set aside
    mon, dow = idx.month.to_numpy(), idx.dayofweek.to_numpy()
    odd = np.where((mon == 7) & (dow == 6), 1.5 * np.exp(-(((hr - 4) / 2.0) ** 2)) - 0.6 * occ, 0.0) + \
        np.where((mon == 2) & (dow == 2), -0.5 * np.exp(-(((hr - 12) / 3.0) ** 2)), 0.0)
    if tag.endswith("/other"):
        # the `other` meter has twelve load-shape groups (two-month blocks x weekday / weekend), each with its own daily peak hour:
        # how many temporal clusters describe it best depends on how many the settings allow
        grp = ((mon - 1) // 2) * 2 + (dow >= 5)
        odd = odd + 1.5 * np.exp(-0.5 * ((hr - (5.0 + 1.5 * grp)) / 1.5) ** 2)
    return c + hb * np.maximum(hbp - T, 0) + cb * np.maximum(T - cbp, 0) + 0.6 * occ + odd + _rng("U" + tag).normal(0, noise, len(T))


CURVE_A = (20.0, 1.0, 50.0, 1.5, 65.0)
CURVE_B = (35.0, 0.4, 55.0, 2.5, 70.0)
HCURVE_A = (1.0, 0.05, 50.0, 0.08, 65.0)
HCURVE_B = (2.0, 0.02, 55.0, 0.12, 70.0)

# name -> (start, days, tz, curve, noise)   `poor` = usage unrelated to weather with heavy spread
DAILY_BASE = {
    "good":  ("2019-01-01", 365, TZ, CURVE_A, 1.0),
    "other": ("2019-01-01", 365, TZ, CURVE_B, 2.0),
    "short": ("2019-01-01", 200, TZ, CURVE_A, 1.0),
    "gaps":  ("2019-01-01", 365, TZ, CURVE_A, 1.0),
    "poor":  ("2019-01-01", 365, TZ, None, 0.0),
    "east":  ("2019-01-01", 365, TZ_OTHER, CURVE_A, 1.0),
    "allheat": ("2019-01-01", 365, TZ, (5.0, 1.2, 95.0, 0.0, 100.0), 1.0),      # usage falls with temperature over the WHOLE observed range: the balance point ends up on its segment bound
    "summerzero": ("2019-01-01", 365, TZ, (0.0, 0.9, 62.0, 0.0, 100.0), 0.6),      # a heating-only gas meter reading exactly 0 from June to September but for five isolated days
    "long":  ("2018-10-01", 400, TZ, CURVE_A, 1.0),       # more than 365 days
    "neggas": ("2019-01-01", 365, TZ, CURVE_A, 1.0),     # a gas meter with a few negative readings
    "netpoor": ("2019-01-01", 365, TZ, None, 0.0),       # a net-metered building that exports more than it draws: spiky usage, mean below zero
    "tgaps": ("2019-01-01", 365, TZ, CURVE_A, 1.0),      # temperature missing for short spells (hourly: 3 afternoon hours on 60 days; daily: 12 days), usage complete
}
# weather id -> (start, days, tz)
REPORT_WX = {
    "wyear":  ("2020-01-01", 366, TZ),
    "wpart":  ("2020-02-15", 280, TZ),      # spans both DST changes of 2020
    "wmonth": ("2020-07-01", 31, TZ),
    "wweek":  ("2020-03-05", 7, TZ),        # contains the spring-forward day
    "wday":   ("2020-08-14", 1, TZ),
    "weast":  ("2020-01-01", 366, TZ_OTHER),
    "wgap":   ("2020-04-01", 61, TZ),
    "wlong":  ("2020-01-01", 600, TZ),      # more than a year: every calendar day of the first months occurs twice
    "whalf":  ("2020-06-01", 14, TZ),       # CalTRACK family only: a 30-MINUTE feed (two rows per hour, the temperature differing between them)
    "wdup":   ("2020-05-01", 45, TZ),       # some timestamps occur twice, the two rows carrying different temperatures; the first one has no usage       # weather feed with short gaps (hourly: 3 hours every 36; daily: every 11th day)
}


def weather_gaps(name, T, hourly):
    if name != "wgap":
        return T
    T = np.array(T, dtype=float)
    pos = np.arange(len(T))
    T[((pos % 36) < 3) & (pos > 40) if hourly else (pos % 11 == 5)] = np.nan
    return T


def dup_rows(name, idx, cols, hourly):
    """weather `wdup`: every 9th row (hourly: every 50th) is followed by a second row with the SAME timestamp, another temperature and
    the usage reading; the first of the two rows has no usage.  The data classes keep the first row of a duplicated timestamp
    (CalTRACK 2.3.2.2), so the temperature used for that timestamp is the first row's whatever the usage column holds."""
    if name != "wdup":
        return idx, cols
    n = len(idx)
    at = np.arange(n)[(np.arange(n) % (50 if hourly else 9)) == 4]
    order = np.sort(np.concatenate([np.arange(n), at]), kind="stable")
    second = np.zeros(len(order), bool)
    second[1:] = order[1:] == order[:-1]
    first = np.zeros(len(order), bool)
    first[:-1] = second[1:]
    out = {}
    for k, v in cols.items():
        w = np.array(v, dtype=float)[order]
        if k == "temperature":
            w[second] = w[second] + 7.0
        elif k == "observed":
            w[first] = np.nan
        out[k] = w
    return idx[order], out


def partnan_mask(n):
    pos = np.arange(n)
    return (pos * 7919 % 10) < 3


def probe_positions(n):
    return np.nonzero(~partnan_mask(n))[0]


def _apply_obs(obs, variant, tag):
    obs = np.array(obs, dtype=float)
    if variant == "orig":
        return obs
    if variant == "x3":
        return obs * 3.0
    if variant == "shuffled":
        out = obs.copy()
        _rng("S" + tag).shuffle(out)
        return out
    if variant == "partnan":
        out = obs.copy()
        out[partnan_mask(len(out))] = np.nan
        return out
    if variant == "partzero":          # an outage recorded as zero readings
        out = obs.copy()
        pos = np.arange(len(out))
        out[(pos * 7919 % 10) == 5] = 0.0
        return out
    if variant == "allnan":
        return np.full(len(obs), np.nan)
    if variant == "absent":
        return None
    raise ValueError(variant)


def ghi_series(idx, tag):
    hr = idx.hour.to_numpy()
    doy = idx.dayofyear.to_numpy()
    sun = np.maximum(0.0, np.sin(np.pi * (hr - 6) / 12.0)) * (600 + 300 * np.sin(2 * np.pi * (doy - 80) / 365.0))
    return sun * (0.6 + 0.4 * _rng("G" + tag).random(len(idx)))


def build(fam, kind, name, obs_variant="orig", ghi=False, supp=False):
    """Return (frame the caller owns, constructor kwargs).  fam in daily|billing|hourly|caltrack."""
    tag = "%s/%s" % (fam, name)
    if fam in ("daily", "billing"):
        if kind == "baseline":
            start, days, tz, curve, noise = DAILY_BASE[name]
            idx, T = daily_weather(start, days, tz, "b" + name)
            if curve is None and name == "netpoor":
                obs = _rng("P" + tag).normal(-1.0, 10.0, days) ** 3 / 20.0
            elif curve is None:
                obs = np.abs(_rng("P" + tag).standard_cauchy(days)) * 30 + 1.0
            else:
                obs = daily_usage(T, idx, curve, noise, tag)
            if name == "gaps":
                obs[40:95] = np.nan
            if name == "neggas":
                obs[[33, 150, 151, 290]] = -5.0
            if name == "summerzero":
                obs = np.clip(obs, 0, None)
                obs[np.isin(idx.month, [6, 7, 8, 9])] = 0.0
                for day in ("2019-06-11", "2019-07-06", "2019-07-24", "2019-08-18", "2019-09-03"):
                    obs[idx.get_loc(pd.Timestamp(day, tz=tz))] = 1.0
            if name == "tgaps":
                T = T.copy()
                T[np.arange(days) % 30 == 7] = np.nan
        else:
            start, days, tz = REPORT_WX[name]
            idx, T = daily_weather(start, days, tz, "r" + name)
            obs = _apply_obs(daily_usage(T, idx, CURVE_A, 1.0, "r" + tag) * 0.85, obs_variant, tag)
            T = weather_gaps(name, T, False)
        cols = {"temperature": T}
        if obs is not None:
            cols["observed"] = obs
        if kind != "baseline":
            idx, cols = dup_rows(name, idx, cols, False)
        return pd.DataFrame(cols, index=idx), {"is_electricity_data": not (kind == "baseline" and name in ("neggas", "summerzero"))}
    if fam in ("hourly", "caltrack"):
        if kind == "baseline":
            start, days, tz, curve, noise = DAILY_BASE[name]
            idx, T = hourly_weather(start, days, tz, "b" + name)
            hc = HCURVE_B if name == "other" else HCURVE_A
            if curve is None and name == "netpoor":
                obs = _rng("P" + tag).normal(-1.0, 10.0, len(idx)) ** 3 / 200.0
            elif curve is None:
                obs = np.abs(_rng("P" + tag).standard_cauchy(len(idx))) * 3 + 0.1
            else:
                obs = hourly_usage(T, idx, hc, 0.1, tag)
            if name == "gaps":
                obs[40 * 24:95 * 24] = np.nan
            if name == "neggas":
                obs[[800, 3600, 3601, 7000]] = -0.5
            if name == "tgaps":
                T = T.copy()
                hr = idx.hour.to_numpy()
                dn = np.arange(len(idx)) // 24
                T[(dn % 6 == 2) & (hr >= 13) & (hr <= 15)] = np.nan
        else:
            start, days, tz = REPORT_WX[name]
            idx, T = hourly_weather(start, days, tz, "r" + name)
            if name == "whalf" and fam == "caltrack":
                # sub-hourly interval data: the CalTRACK data class sums the usage and averages the temperature of each hour.  The
                # second half-hour is 3 F warmer, so WHICH intervals enter the hourly mean matters - and must not depend on usage
                # (the 30 %-NaN variant blanks one of the two readings of some hours, both of others)
                idx = idx.repeat(2) + pd.to_timedelta(np.tile([0, 30], len(idx)), unit="min")
                T = np.repeat(T, 2) + np.tile([0.0, 3.0], len(T))
            obs = _apply_obs(hourly_usage(T, idx, HCURVE_A, 0.1, "r" + tag) * (0.425 if len(idx) > days * 24 + 1 else 0.85), obs_variant, tag)
            T = weather_gaps(name, T, True)
        cols = {"temperature": T}
        if ghi:
            g = ghi_series(idx, ("b" if kind == "baseline" else "r") + name)
            cols["ghi"] = g
            if obs is not None:
                obs = obs - 0.002 * g          # a building with PV: usage falls with irradiance
        if supp:            # supplemental time series a user may name in the hourly settings (occupancy proxies)
            hr = idx.hour.to_numpy()
            dw = idx.dayofweek.to_numpy()
            cols["sup_c"] = ((hr > 7) & (hr < 19) & (dw < 5)).astype(float)
            cols["sup_a"] = np.sin(2 * np.pi * hr / 24.0)
            cols["sup_b"] = (dw >= 5).astype(float) * 0.5
        if obs is not None:
            cols["observed"] = obs
        if kind != "baseline":
            idx, cols = dup_rows(name, idx, cols, True)
        return pd.DataFrame(cols, index=idx), {"is_electricity_data": not (kind == "baseline" and name in ("neggas", "summerzero"))}
    raise ValueError(fam)
