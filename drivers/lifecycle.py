"""Lifecycle coordinator: turns one abstract history (from TLC) into calls on the real library, possibly spread over
several OS processes, and assembles the recorded trace for LifecycleTrace.tla."""
from __future__ import annotations

import json
import os
import shutil
import subprocess
import sys
import tempfile

from . import lifeworld

VERIF = os.path.dirname(os.path.dirname(os.path.abspath(__file__)))
DUMMY_M = {"json": "-", "dq": [], "warn": "-", "tz": "-"}
DUMMY_D = {"df": "-", "dq": "-", "warn": "-"}
DUMMY_X = {"h": "-"}


class Remote:
    def __init__(self, proc, store_dir, threads=None, numba_dir=None):
        env = dict(os.environ)
        if threads:
            for k in ("OMP_NUM_THREADS", "MKL_NUM_THREADS", "OPENBLAS_NUM_THREADS", "NUMBA_NUM_THREADS", "NUMEXPR_NUM_THREADS"):
                env[k] = str(threads)
        if numba_dir:
            env["NUMBA_CACHE_DIR"] = numba_dir
        # a user's fresh processes hash strings differently: every worker process gets its own, fixed, hash seed (the parent runs with 0)
        env["PYTHONHASHSEED"] = str(1 + sum(ord(c) for c in proc) % 7)
        self.p = subprocess.Popen(["/venv/bin/python", "-m", "drivers.lifeworker", proc, store_dir], cwd=VERIF, env=env,
                                  stdin=subprocess.PIPE, stdout=subprocess.PIPE, stderr=subprocess.DEVNULL, text=True)
        ready = self.p.stdout.readline()
        if not ready:
            raise RuntimeError("remote world %s failed to start" % proc)

    def run(self, a):
        self.p.stdin.write(json.dumps(a) + "\n")
        self.p.stdin.flush()
        line = self.p.stdout.readline()
        if not line:
            raise RuntimeError("remote world died on %s" % a)
        ev = json.loads(line)
        if "machinery_error" in ev:
            raise RuntimeError(ev["machinery_error"])
        return ev

    def close(self):
        try:
            self.p.stdin.write(json.dumps({"op": "quit"}) + "\n")
            self.p.stdin.flush()
            self.p.wait(timeout=20)
        except Exception:
            self.p.kill()


class Local:
    def __init__(self, proc, store_dir):
        self.w = lifeworld.World(proc, store_dir)

    def run(self, a):
        return self.w.run(a)

    def close(self):
        pass


def run_history(job):
    """job = {"tid": .., "hist": [abstract actions], "remote": bool}.  Returns {"tid", "events"}."""
    tid, hist = job["tid"], job["hist"]
    store_dir = tempfile.mkdtemp(prefix="verif_store_")
    worlds = {}
    projs = {}
    via = {}          # slot id -> "fit" | "load"
    obs_of = {}       # data id -> obs variant
    docs = []         # documents saved so far, in order
    events = []
    try:
        for a in hist:
            a = dict(a)
            p = a.get("p", "p1")
            if a["op"] == "start":
                if p in worlds:
                    worlds[p].close()
                worlds[p] = Remote(p, store_dir, a.get("threads"), a.get("numba_dir")) if (job.get("remote") or a.get("cold")) else Local(p, store_dir)
                projs[p] = {"m": {}, "d": {}, "x": {}}
                ev = {"op": "start", "proc": p, "threads": a.get("threads", 0), "out": "ok"}
            else:
                if p not in worlds:
                    worlds[p] = Remote(p, store_dir) if job.get("remote") else Local(p, store_dir)
                    projs[p] = {"m": {}, "d": {}, "x": {}}
                for k in ("s", "d"):
                    if k in a:
                        a[k] = "%s/%s" % (p, a[k])
                if a["op"] == "load":
                    if isinstance(a.get("docix"), int) and a["docix"] > len(docs):
                        break      # an earlier save failed (a rejected step): there is no such document to load
                    a["doc"] = docs[a["docix"] - 1] if isinstance(a.get("docix"), int) else a["doc"]
                if (a["op"] in ("fit", "predict", "save") and a["s"] not in projs[p]["m"]) or \
                        (a["op"] in ("fit", "predict", "readdf") and a["d"] not in projs[p]["d"]):
                    break      # an earlier call failed to produce this object; the trace ends at that (rejected) step
                ev = worlds[p].run(a)
                projs[p] = ev["proj"]
                if a["op"] == "make":
                    obs_of[a["d"]] = a.get("obs", "orig")
                if a["op"] == "fit" and ev["out"] == "ok":
                    via[a["s"]] = "fit"
                if a["op"] == "load" and ev["out"] == "ok":
                    via[a["s"]] = "load"
                if a["op"] == "save" and ev["out"] == "ok":
                    docs.append(ev["doc"])
            merged = {"m": {"_": DUMMY_M}, "d": {"_": DUMMY_D}, "x": {"_": DUMMY_X}}
            for pp in projs.values():
                for k in ("m", "d", "x"):
                    merged[k].update(pp[k])
            ev["proj"] = merged
            ev["tid"] = tid
            ev.setdefault("proc", p)
            ev["pobs"] = obs_of.get(a.get("d"), "-") if a["op"] == "predict" else "-"
            ev["pvia"] = via.get(a.get("s"), "-")
            ev.setdefault("pinst", "-")
            events.append(ev)
    finally:
        for w in worlds.values():
            w.close()
        shutil.rmtree(store_dir, ignore_errors=True)
    return {"tid": tid, "events": events, "hist": hist}
