"""Subprocess side of a remote World: JSON lines on stdin/stdout."""
import json
import os
import sys


def main():
    proc, store_dir = sys.argv[1], sys.argv[2]
    sys.path.insert(0, os.path.dirname(os.path.dirname(os.path.abspath(__file__))))
    from engine import common
    common.setup_env()
    common.quiet()
    real_out = os.fdopen(os.dup(1), "w")
    sys.stdout = sys.stderr            # the library prints now and then; keep the protocol channel clean
    from drivers import lifeworld
    w = lifeworld.World(proc, store_dir)
    real_out.write(json.dumps({"ready": True}) + "\n")
    real_out.flush()
    for line in sys.stdin:
        line = line.strip()
        if not line:
            continue
        a = json.loads(line)
        if a.get("op") == "quit":
            break
        try:
            ev = w.run(a)
        except Exception as ex:
            import traceback
            ev = {"machinery_error": "%s: %s\n%s" % (type(ex).__name__, ex, traceback.format_exc())}
        real_out.write(json.dumps(ev) + "\n")
        real_out.flush()


if __name__ == "__main__":
    main()
