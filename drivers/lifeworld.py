"""Executes Lifecycle actions on the real library and measures (hashes) the whole observable state after each.
One World = one OS process' worth of live objects.  Nothing here decides anything: events go to TLC."""
from __future__ import annotations

import hashlib
import json
import os

import numpy as np
import pandas as pd

from . import lifecat

_em = None


def em():
    global _em
    if _em is None:
        import opendsm.eemeter as m
        _em = m
    return _em


def sha(b) -> str:
    if isinstance(b, str):
        b = b.encode()
    return hashlib.sha256(b).hexdigest()[:20]


def hash_frame(df) -> str:
    if df is None:
        return "none"
    h = hashlib.sha256()
    if isinstance(df, pd.Series):
        df = df.to_frame(name=str(df.name))
    h.update(repr([str(c) for c in df.columns]).encode())
    h.update(repr([str(t) for t in df.dtypes]).encode())
    idx = df.index
    if isinstance(idx, pd.DatetimeIndex):
        h.update(str(idx.tz).encode())
        h.update(str(idx.freq).encode())
        h.update(str(idx.dtype).encode())
        h.update(np.ascontiguousarray(idx.asi8).tobytes())
    else:
        h.update(repr(list(idx)).encode())
    for c in df.columns:
        col = df[c]
        if col.dtype.kind in "fiub":
            h.update(np.ascontiguousarray(col.to_numpy()).tobytes())
        else:
            h.update(repr(col.tolist()).encode())
    return h.hexdigest()[:20]


def canon_json(text) -> str:
    """Canonical form of a JSON document: parsed value with every number written as a float (12 and 12.0 are the same
    document) and keys sorted.  Document equality in C01 is equality of JSON values, not of bytes."""
    def norm(v):
        if isinstance(v, bool) or v is None or isinstance(v, str):
            return v
        if isinstance(v, int):
            return repr(float(v)) if abs(v) < 2 ** 53 else "int:%d" % v
        if isinstance(v, float):
            return repr(v)
        if isinstance(v, list):
            return [norm(x) for x in v]
        if isinstance(v, dict):
            if "qualified_name" in v and "description" in v:
                # a stored warning: identified by its name and data; the free text embeds formatted numbers ("CVRMSE > 1" vs
                # "CVRMSE > 1.0" for the same threshold written as int or float) and is not part of the JSON value compared
                v = {k: x for k, x in v.items() if k != "description"}
            return {str(k): norm(x) for k, x in v.items()}
        return repr(v)
    return json.dumps(norm(json.loads(text)), sort_keys=True)


def warn_names(ws):
    return [w.qualified_name for w in ws]


def hash_warnings(ws) -> str:
    out = []
    for w in ws:
        out.append([w.qualified_name, json.dumps(w.data, sort_keys=True, default=str)])       # not the free text, see canon_json
    return sha(json.dumps(out))


FAMS = {
    "daily": ("DailyModel", "DailyBaselineData", "DailyReportingData"),
    "billing": ("BillingModel", "BillingBaselineData", "BillingReportingData"),
    "hourly": ("HourlyModel", "HourlyBaselineData", "HourlyReportingData"),
    "caltrack": ("HourlyCaltrackModel", "HourlyCaltrackBaselineData", "HourlyCaltrackReportingData"),
}


def new_model(fam, prof, seed):
    m = em()
    if fam == "daily":
        if prof == "current":
            return m.DailyModel()
        if prof == "legacy":
            return m.DailyModel(model="legacy")
        if prof == "custommaps":
            return m.DailyModel(settings={
                "season": {1: "winter", 2: "winter", 3: "winter", 4: "shoulder", 5: "shoulder", 6: "summer", 7: "summer",
                           8: "summer", 9: "shoulder", 10: "shoulder", 11: "shoulder", 12: "winter"},
                "weekday_weekend": {1: "weekday", 2: "weekday", 3: "weekday", 4: "weekday", 5: "weekend", 6: "weekend", 7: "weekend"}})
        if prof == "devmode":
            return m.DailyModel(settings={"developer_mode": True, "silent_developer_mode": True, "cvrmse_threshold": 0.5})
    if fam == "billing":
        return m.BillingModel()
    if fam == "hourly":
        if prof == "default":
            return m.HourlyModel(settings=m.HourlyNonSolarSettings(seed=seed))
        if prof == "dictseed":
            return m.HourlyModel(settings={"seed": seed})
        if prof == "solar":
            return m.HourlyModel(settings=m.HourlySolarSettings(seed=seed))
        if prof == "solar_tf":          # the validator prepends ghi: train_features == ["ghi", "temperature"]
            return m.HourlyModel(settings=m.HourlySolarSettings(seed=seed, train_features=["temperature"]))
        if prof == "solar_dict":
            return m.HourlyModel(settings={"train_features": ["ghi", "temperature"], "seed": seed})
        if prof == "supp":              # three supplemental time-series columns, named in an order that is not the sorted one
            return m.HourlyModel(settings={"seed": seed, "supplemental_time_series_columns": ["sup_c", "sup_a", "sup_b"]})
        if prof == "fewclusters":       # a permitted clustering option: at most six temporal clusters (the default is 24)
            return m.HourlyModel(settings={"seed": seed, "temporal_cluster": {"n_cluster_upper": 6}})
        if prof == "mincluster":        # a permitted clustering option: small temporal clusters are merged / set aside
            return m.HourlyModel(settings={"seed": seed, "temporal_cluster": {"min_cluster_size": 3}})
        if prof == "robust":
            return m.HourlyModel(settings=m.HourlyNonSolarSettings(seed=seed, scaling_method="robustscaler"))
    if fam == "caltrack":
        return m.HourlyCaltrackModel()
    raise ValueError("unknown profile %s/%s" % (fam, prof))


def _accepts_seed():
    return True


class World:
    def __init__(self, proc, store_dir):
        self.proc = proc
        self.store_dir = store_dir
        self.models = {}     # slot id -> [fam, model object]
        self.data = {}       # data id -> [fam, object]
        self.ext = {}        # data id -> caller's frame
        self.kept = {}       # frames handed out by the library and kept by the "user"
        self.inst = 0

    # ---- projection
    def proj(self):
        pm, pd_, px = {}, {}, {}
        for sid, rec in self.models.items():
            pm[sid] = self._proj_model(rec[0], rec[1])
        for did, (fam, d) in self.data.items():
            pd_[did] = {"df": hash_frame(d.df), "dq": hash_warnings(d.disqualification), "warn": hash_warnings(d.warnings)}
        for did, fr in self.ext.items():
            px[did] = {"h": hash_frame(fr)}
        return {"m": pm, "d": pd_, "x": px}

    def _is_fitted(self, fam, m):
        if fam == "caltrack":
            return bool(getattr(m, "is_fit", False))
        return bool(getattr(m, "is_fitted", False))

    def _proj_model(self, fam, m):
        if not self._is_fitted(fam, m):
            return {"json": "unfitted", "dq": [], "warn": "-", "tz": ""}
        try:
            js = sha(canon_json(m.to_json()))
        except Exception as ex:
            js = "unserialisable"
        dq = warn_names(getattr(m, "disqualification", []) or [])
        wn = hash_warnings(getattr(m, "warnings", []) or [])
        tz = str(getattr(m, "baseline_timezone", ""))
        return {"json": js, "dq": dq, "warn": wn, "tz": tz}

    # ---- actions; each returns the event fields it measured (without proj)
    def make(self, d, fam, kind, name, obs, entry, ghi=False, supp=False):
        frame, kw = lifecat.build(fam, kind, name, obs, ghi=ghi, supp=supp)
        if entry == "dtcol":            # timestamps handed over as a `datetime` column instead of the index
            frame = frame.rename_axis("datetime").reset_index()
        elif entry == "naive":          # malformed on purpose: the constructor must refuse it - and leave the caller's frame as it was
            frame = frame.copy()
            frame.index = frame.index.tz_localize(None)
        elif entry == "notemp":
            frame = frame.drop(columns="temperature")
        elif entry == "shuffled":       # rows in another order (well formed: the index is what it is)
            frame = frame.sample(frac=1.0, random_state=3)
        self.ext[d] = frame
        before = hash_frame(frame)
        cls = getattr(em(), FAMS[fam][1 if kind == "baseline" else 2])
        ev = {"op": "make", "d": d, "kind": kind, "fam": fam, "sig": "%s%s%s/%s/%s" % (fam, "+ghi" if ghi else "", "+supp" if supp else "", kind, name), "wx": "%s%s%s/%s" % (("h" if fam in ("hourly", "caltrack") else "d"), "g" if ghi else "", "s" if supp else "", name),
              "obs": obs, "entry": entry, "ext_before": before, "tz": "", "dq": [], "warn": [], "fullcal": False}
        try:
            if entry == "series_utc" and hasattr(cls, "from_series"):
                # the weather feed arrives in UTC (its own Series, owned by the caller); without usage the reporting classes are told
                # the meter's zone - the documented from_series(None, temperature, tzinfo=...) usage
                temp = frame["temperature"].copy()
                temp.index = temp.index.tz_convert("UTC")
                self.ext[d] = temp
                ev["sig"] += "+utcfeed"          # not claimed to be the same data object as the one built from the frame
                ev["wx"] += "+utcfeed"
                ev["ext_before"] = hash_frame(temp)
                meter = frame["observed"] if "observed" in frame.columns else None
                if meter is None and kind == "reporting":
                    obj = cls.from_series(None, temp, tzinfo=frame.index.tz, **kw)
                else:
                    obj = cls.from_series(meter, temp, **kw)
            elif entry == "series_hfeed" and hasattr(cls, "from_series"):
                # a daily meter with an HOURLY weather feed (the feed is the daily temperature plus a diurnal wave)
                hidx = pd.date_range(frame.index[0], frame.index[-1] + pd.Timedelta(hours=23), freq="h")
                day = pd.Series(frame["temperature"].to_numpy(), index=frame.index.normalize()).reindex(hidx.normalize()).to_numpy()
                temp = pd.Series(day + 3.0 * np.sin(2 * np.pi * (hidx.hour.to_numpy() - 9) / 24.0), index=hidx, name="temperature")
                ev["sig"] += "+hfeed"
                ev["wx"] += "+hfeed"
                meter = frame["observed"] if "observed" in frame.columns else None
                if meter is None and kind == "reporting":
                    obj = cls.from_series(None, temp, tzinfo=frame.index.tz, **kw)
                else:
                    obj = cls.from_series(meter, temp, **kw)
            elif entry == "series" and hasattr(cls, "from_series"):
                meter = frame["observed"] if "observed" in frame.columns else None
                obj = cls.from_series(meter, frame["temperature"], **kw)
            else:
                obj = cls(frame, **kw)
        except Exception as ex:
            ev["out"] = type(ex).__name__
            ev["err"] = str(ex)[:200]
            return ev
        self.data[d] = [fam, obj]
        ev["out"] = "ok"
        ev["tz"] = str(getattr(obj, "tz", None) if fam != "caltrack" else obj.df.index.tz)
        ev["dq"] = warn_names(obj.disqualification)
        ev["warn"] = warn_names(obj.warnings)
        idx = obj.df.index
        ok = obj.df["temperature"].notna()
        if "observed" in obj.df.columns:
            ok = ok & obj.df["observed"].notna()
        ii = idx[ok.to_numpy()]
        ev["fullcal"] = bool(len(set(ii.month)) == 12 and len(set(ii.dayofweek)) == 7 and len(set(zip(ii.month, ii.dayofweek))) == 84)
        return ev

    def new(self, s, fam, prof, seed):
        self.models[s] = [fam, new_model(fam, prof, seed)]
        return {"op": "new", "s": s, "fam": fam, "prof": prof, "seed": seed, "out": "ok"}

    def fit(self, s, d, ign):
        fam, m = self.models[s][0], self.models[s][1]
        dfam, obj = self.data[d]
        self.inst += 1
        ev = {"op": "fit", "s": s, "d": d, "ign": ign, "gate": {"cv_ok": True, "pn_ok": True, "cv_gt": False}, "pinst": "%s#%d" % (self.proc, self.inst)}
        try:
            if fam == "caltrack":
                m.fit(obj)
            else:
                m.fit(obj, ignore_disqualification=ign)
            ev["out"] = "ok"
        except Exception as ex:
            ev["out"] = type(ex).__name__
            ev["err"] = str(ex)[:200]
            return ev
        self.models[s] = [fam, m, ev["pinst"]]
        try:
            if fam == "hourly":
                bm = m.baseline_metrics
                cv, pn = bm.cvrmse_adj, bm.pnrmse_adj
                ev["gate"]["cv_ok"] = bool(cv is not None and cv < m.settings.cvrmse_threshold)
                ev["gate"]["pn_ok"] = bool(pn is not None and pn < m.settings.pnrmse_threshold)
            elif fam in ("daily", "billing"):
                ev["gate"]["cv_gt"] = bool(m.error["CVRMSE"] > m.settings.cvrmse_threshold)
        except Exception as ex:
            ev["gate_err"] = "%s: %s" % (type(ex).__name__, ex)
        return ev

    def predict(self, s, d, ign, agg):
        fam, m = self.models[s][0], self.models[s][1]
        dfam, obj = self.data[d]
        ev = {"op": "predict", "s": s, "d": d, "ign": ign, "agg": agg, "val": "-", "full": "-", "rows_ok": True, "pv": [],
              "pinst": self.models[s][2] if len(self.models[s]) > 2 else "-"}
        try:
            if fam == "caltrack":
                res = m.predict(obj)
            elif fam == "billing":
                res = m.predict(obj, aggregation=None if agg == "None" else agg, ignore_disqualification=ign)
            else:
                res = m.predict(obj, ignore_disqualification=ign)
            ev["out"] = "ok"
        except Exception as ex:
            ev["out"] = type(ex).__name__
            ev["err"] = str(ex)[:200]
            return ev
        self.kept["lastpred"] = res
        pred = res["predicted"].to_numpy(dtype=float)
        ev["val"] = sha(np.ascontiguousarray(pred).tobytes() + np.ascontiguousarray(res.index.asi8).tobytes())
        if agg in ("None", "none"):
            ev["rows_ok"] = bool(res.index.equals(obj.df.index))
            # probe vector: predictions at up to 48 timestamps of the caller's frame, "missing" where none was produced
            ext = self.ext[d]
            if isinstance(ext, pd.Series):          # a feed handed over as a Series of its own (entry series_utc)
                ext = ext.to_frame(name="temperature")
            src = pd.DatetimeIndex(ext["datetime"]) if "datetime" in ext.columns else ext.index      # timestamps handed over as a column
            k = min(len(src), 96)
            pos = set(int(round(x)) for x in np.linspace(0, len(src) - 1, k))
            # plus rows the observed-variants touch (blanked / zeroed positions and their neighbours)
            allpos = np.arange(len(src))
            tnan = ext["temperature"].isna().to_numpy() if "temperature" in ext.columns else np.zeros(len(src), bool)     # hours whose temperature has to be filled
            dupm = np.asarray(src.duplicated(keep=False))        # timestamps that occur more than once in the caller's frame
            for m in ((allpos * 7919 % 10) == 5, (allpos * 7919 % 10) < 3, tnan, dupm):
                hit = allpos[m][:40]
                pos.update(int(x) for x in hit)
                pos.update(int(x) + 1 for x in hit if x + 1 < len(src))
            pos = sorted(pos)
            look = pd.Series(pred, index=res.index)
            look = look[~look.index.duplicated(keep="first")]
            pv = []
            for ts in src[pos]:
                v = look.get(ts, np.nan)
                pv.append("missing" if not np.isfinite(v) else sha(np.float64(v).tobytes())[:10])
            ev["pv"] = pv
        ev["full"] = hash_frame(res)
        ev["nfinite"] = int(np.isfinite(pred).sum())
        fin = pred[np.isfinite(pred)]
        ev["pvaries"] = bool(len(fin) > 1 and float(fin.max()) != float(fin.min()))      # a flat model predicts the same for any weather
        return ev

    def save(self, s):
        fam, m = self.models[s][0], self.models[s][1]
        ev = {"op": "save", "s": s, "doc": "-", "pinst": self.models[s][2] if len(self.models[s]) > 2 else "-"}
        try:
            text = m.to_json()
            ev["out"] = "ok"
        except Exception as ex:
            ev["out"] = type(ex).__name__
            ev["err"] = str(ex)[:200]
            return ev
        ev["doc"] = sha(canon_json(text))
        with open(os.path.join(self.store_dir, ev["doc"] + ".json"), "w") as f:
            f.write(text)
        with open(os.path.join(self.store_dir, ev["doc"] + ".meta"), "w") as f:
            json.dump({"fam": fam, "pinst": ev["pinst"]}, f)
        return ev

    def load(self, s, doc, form="written"):
        """form: the stored text as written, or the same JSON value with the members of every object sorted / reversed (what a
        key-sorting serialiser or a jsonb column hands back)"""
        meta = json.load(open(os.path.join(self.store_dir, doc + ".meta")))
        fam = meta["fam"]
        cls = getattr(em(), FAMS[fam][0])
        ev = {"op": "load", "s": s, "doc": doc, "form": form}
        try:
            text = open(os.path.join(self.store_dir, doc + ".json")).read()
            if form != "written":
                from .docs import reorder
                text = json.dumps(reorder(json.loads(text), form))
            m = cls.from_json(text)
            ev["out"] = "ok"
        except Exception as ex:
            ev["out"] = type(ex).__name__
            ev["err"] = str(ex)[:200]
            return ev
        self.models[s] = [fam, m, meta["pinst"]]
        return ev

    def readdf(self, d):
        """the user takes .df from a data object and overwrites it in place"""
        fam, obj = self.data[d]
        fr = obj.df
        for c in fr.columns:
            if fr[c].dtype.kind == "f":
                fr[c] = -12345.0
        fr.drop(fr.index[: max(1, len(fr) // 2)], inplace=True)
        self.kept["df:" + d] = fr
        return {"op": "readdf", "d": d, "out": "ok"}

    def scribble(self):
        """the user overwrites the last prediction frame the library returned"""
        fr = self.kept.get("lastpred")
        if fr is not None:
            for c in fr.columns:
                if fr[c].dtype.kind == "f":
                    fr[c] = 777.0
        return {"op": "scribble", "out": "ok"}

    def other(self, k, fam=None):
        """unrelated prior use of the library / of global state (C03 warm kinds)"""
        m = em()
        if k == "rng":
            np.random.seed(12345)
            np.random.random(1000)
            import random
            random.seed(99)
            random.random()
        elif k == "settings":
            from opendsm.eemeter.models.daily.utilities.settings import DailySettings
            DailySettings(developer_mode=True, silent_developer_mode=True, cvrmse_threshold=0.3)
            m.HourlyNonSolarSettings(seed=7)
            # whole model objects with other permitted settings, built and thrown away
            m.DailyModel(model="legacy", settings={"uncertainty_alpha": 0.3, "weekday_weekend": {
                1: "weekend", 2: "weekend", 3: "weekday", 4: "weekday", 5: "weekday", 6: "weekday", 7: "weekday"}})
            m.BillingModel(settings={"uncertainty_alpha": 0.3})
            m.HourlyModel(settings={"seed": 11, "supplemental_time_series_columns": ["sup_b"]})
        elif k == "otherfit":
            fr, kw = lifecat.build("daily", "baseline", "other")
            b = m.DailyBaselineData(fr, **kw)
            # the unrelated earlier work uses OTHER permitted settings than the model under test (uncertainty level, calendar maps)
            mm = m.DailyModel(model="legacy", settings={"uncertainty_alpha": 0.05, "weekday_weekend": {
                1: "weekday", 2: "weekday", 3: "weekday", 4: "weekday", 5: "weekend", 6: "weekend", 7: "weekend"}}).fit(b, ignore_disqualification=True)
            fr2, kw2 = lifecat.build("daily", "reporting", "wmonth")
            mm.predict(m.DailyReportingData(fr2, **kw2), ignore_disqualification=True)
            frb, kwb = lifecat.build("billing", "baseline", "other")
            m.BillingModel(settings={"uncertainty_alpha": 0.2}).fit(m.BillingBaselineData(frb, **kwb), ignore_disqualification=True)
            # ... and an hourly fit on four months of another meter with a supplemental column and default train features
            frh, kwh = lifecat.build("hourly", "baseline", "other", supp=True)
            if fam != "hourly":          # (hourly family under test: a whole year, so that the prior fit has as many (month, weekday) rows as the fit under test)
                frh = frh.iloc[: 24 * 125]
            m.HourlyModel(settings={"seed": 5, "supplemental_time_series_columns": ["sup_b"]}).fit(m.HourlyBaselineData(frh, **kwh), ignore_disqualification=True)
        elif k == "otherhourly":
            fr, kw = lifecat.build("hourly", "baseline", "other")
            b = m.HourlyBaselineData(fr, **kw)
            mm = m.HourlyModel(settings=m.HourlyNonSolarSettings(seed=3)).fit(b, ignore_disqualification=True)
            fr2, kw2 = lifecat.build("hourly", "reporting", "wweek")
            mm.predict(m.HourlyReportingData(fr2, **kw2), ignore_disqualification=True)
        return {"op": "other", "k": k, "out": "ok"}

    def run(self, a):
        op = a["op"]
        if op == "make":
            ev = self.make(a["d"], a["fam"], a["kind"], a["name"], a.get("obs", "orig"), a.get("entry", "frame"), a.get("ghi", False), a.get("supp", False))
        elif op == "new":
            ev = self.new(a["s"], a["fam"], a["prof"], a.get("seed", 0))
        elif op == "fit":
            ev = self.fit(a["s"], a["d"], a["ign"])
        elif op == "predict":
            ev = self.predict(a["s"], a["d"], a["ign"], a.get("agg", "None"))
        elif op == "save":
            ev = self.save(a["s"])
        elif op == "load":
            ev = self.load(a["s"], a["doc"], a.get("form", "written"))
        elif op == "readdf":
            ev = self.readdf(a["d"])
        elif op == "scribble":
            ev = self.scribble()
        elif op == "other":
            ev = self.other(a["k"], a.get("fam"))
        else:
            raise ValueError(op)
        ev["proc"] = self.proc
        ev["proj"] = self.proj()
        return ev
