"""C16 driver: real BaselineMetrics / ReportingMetrics on small integer series (values snapped to rationals), the hourly
poor-fit gate on a bare model with chosen statistic values, and stored metrics of real fits."""
from __future__ import annotations

from fractions import Fraction

import numpy as np
import pandas as pd

_st = {}


def init():
    import opendsm.eemeter as em
    from opendsm.common.metrics import BaselineMetrics, ReportingMetrics
    _st.update(em=em, BM=BaselineMetrics, RM=ReportingMetrics)


def snap(x, den=20000):
    """float | None -> [u, n, d, ok]"""
    if x is None:
        return {"u": True, "n": 0, "d": 1, "ok": True}
    x = float(x)
    if np.isnan(x):
        return {"u": True, "n": 0, "d": 1, "ok": True}
    if not np.isfinite(x):
        return {"u": False, "n": 1 if x > 0 else -1, "d": 0, "ok": False}       # an infinity is a reported number, and a wrong one
    fr = Fraction(x).limit_denominator(den)
    ok = abs(float(fr) - x) <= 1e-9 * max(1.0, abs(x))
    if abs(fr.numerator) > 40000 or fr.denominator > 40000:
        ok = False
    return {"u": False, "n": fr.numerator if ok else 0, "d": fr.denominator if ok else 1, "ok": bool(ok)}


def sq(x):
    return None if x is None else float(x) ** 2


def _series(cells, marker):
    return np.array([float(c["v"]) if c["f"] else marker for c in cells], dtype=float)


def _stats(cin):
    n = len(cin["obs"])
    idx = pd.date_range("2020-01-01", periods=n, freq="D", tz="UTC")
    # non-finite markers alternate between NaN and inf
    obs = _series(cin["obs"], np.nan)
    pred = _series(cin["pred"], np.inf)
    df = pd.DataFrame({"observed": obs, "predicted": pred}, index=idx)
    bm = _st["BM"](df=df, num_model_params=cin["p"])
    rm = _st["RM"](baseline_metrics=bm, reporting_df=df, data_frequency="daily")
    m = {}
    m["n"] = snap(bm.n)
    m["sse"] = snap(bm.sse)
    m["mse"] = snap(bm.mse)
    m["rmse2"] = snap(sq(bm.rmse))
    m["rmseadj2"] = snap(sq(bm.rmse_adj))
    m["mae"] = snap(bm.mae)
    m["mbe"] = snap(bm.mbe)
    m["cvrmse2"] = snap(sq(bm.cvrmse))
    m["cvrmseadj2"] = snap(sq(bm.cvrmse_adj))
    m["nmae"] = snap(bm.nmae)
    m["nmbe"] = snap(bm.nmbe)
    m["pnrmse2"] = snap(sq(bm.pnrmse))
    m["r2"] = snap(bm.r_squared)
    res = (df["observed"] - df["predicted"])[np.isfinite(df["observed"]) & np.isfinite(df["predicted"])]
    rho = res.autocorr(lag=1) if len(res) >= 3 else np.nan
    m["rho2"] = snap(sq(rho) if np.isfinite(rho) else None)
    npr = float(bm.n_prime)
    nn = float(bm.n)
    m["nprimerho2"] = snap(((nn - npr) / (nn + npr)) ** 2 if np.isfinite(rho) and (nn + npr) != 0 else None)
    m["savings"] = snap(rm.savings)
    sign = 0
    if np.isfinite(rho):
        sign = 1 if rho > 1e-12 else (-1 if rho < -1e-12 else 0)
        # the sign of n - n' must be the sign of rho
        if (nn - npr > 1e-9 and sign <= 0 and abs(rho) > 1e-9) or (nn - npr < -1e-9 and sign >= 0 and abs(rho) > 1e-9):
            sign = 99
    return {"res": "ok", "m": m, "rhosign": sign, "perfect": bool(float(bm.sse) == 0.0)}


def _calstats(cin):
    from opendsm.eemeter.models.hourly_caltrack.metrics import ModelMetrics
    n = len(cin["obs"])
    idx = pd.date_range("2020-01-01", periods=n, freq="h", tz="UTC")
    obs = pd.Series([float(c["v"]) for c in cin["obs"]], index=idx)[[c["f"] for c in cin["obs"]]]
    pred = pd.Series([float(c["v"]) for c in cin["pred"]], index=idx)[[c["f"] for c in cin["pred"]]]
    if cin["order"] == "reversed":
        pred = pred.iloc[::-1]
    import warnings
    with warnings.catch_warnings():
        warnings.simplefilter("ignore")
        mm = ModelMetrics(obs, pred, num_parameters=cin["p"])
    return {"res": "ok", "n": int(mm.merged_length), "rmse2": snap(sq(mm.rmse))}


def _tq(cin):
    import math
    p = 2
    n = cin["dof"] + p
    idx = pd.date_range("2020-01-01", periods=n, freq="D", tz="UTC")
    obs = 20.0 + (np.arange(n) * 7) % 11
    pred = obs + ((np.arange(n) * 5) % 3 - 1.0)
    df = pd.DataFrame({"observed": obs, "predicted": pred}, index=idx)
    bm = _st["BM"](df=df, num_model_params=p)
    if int(bm.ddof) != cin["dof"]:
        return {"res": "BadRealisation", "fl": 0, "ce": 0, "err": "ddof %s" % bm.ddof}
    rm = _st["RM"](baseline_metrics=bm, reporting_df=df, data_frequency="daily", confidence_level=cin["conf"] / 100.0, t_tail=cin["tail"])
    t = float(rm.t_stat)
    return {"res": "ok", "fl": int(math.floor(t * 1000)), "ce": int(math.ceil(t * 1000))}


class _FakeMetrics:
    def __init__(self, cv, pn):
        self.cvrmse_adj = cv
        self.pnrmse_adj = pn


def _gate(cin):
    em = _st["em"]
    m = em.HourlyModel(settings=em.HourlyNonSolarSettings(seed=1))
    lo, hi = sorted([m.settings.cvrmse_threshold, m.settings.pnrmse_threshold])
    val = lambda k, own: {"none": None, "low": lo * 0.5, "mid": (lo + hi) / 2.0, "high": hi * 1.5, "eqown": own}[k]
    m.baseline_metrics = _FakeMetrics(val(cin["cv"], m.settings.cvrmse_threshold), val(cin["pn"], m.settings.pnrmse_threshold))
    return {"res": "ok", "poor": not bool(m._model_fit_is_acceptable())}


def _stored(cin):
    import sys
    sys.path.insert(0, "/verif")
    from drivers import lifecat
    em = _st["em"]
    fam = cin["fam"]
    frame, kw = lifecat.build(fam, "baseline", cin["name"])
    same = True
    prior = cin.get("prior", "none")
    as_fresh = True

    def close(x, y):
        if (x is None) != (y is None):
            return False
        return x is None or bool(np.isclose(x, y, rtol=1e-9, atol=1e-12, equal_nan=True))

    if fam == "hourly":
        b = em.HourlyBaselineData(frame, **kw)
        m = em.HourlyModel(settings=em.HourlyNonSolarSettings(seed=1))
        if prior != "none":
            fresh = em.HourlyModel(settings=em.HourlyNonSolarSettings(seed=1)).fit(b, ignore_disqualification=True).baseline_metrics.model_dump()
            fp, kp = lifecat.build(fam, "baseline", prior)
            m.fit(em.HourlyBaselineData(fp, **kp), ignore_disqualification=True)
        m.fit(b, ignore_disqualification=True)
        if prior != "none":
            mine = m.baseline_metrics.model_dump()
            as_fresh = all(close(mine.get(k), fresh.get(k)) for k in ("n", "rmse", "rmse_adj", "cvrmse", "cvrmse_adj", "pnrmse", "pnrmse_adj", "mae", "mbe", "r_squared"))
        pred = m.predict(b, ignore_disqualification=True)
        cols = [c for c in pred.columns if c.startswith("interpolated_")]
        keep = ~pred[cols].any(axis=1)
        ref = _st["BM"](df=pred.loc[keep], num_model_params=m.baseline_metrics.num_model_params)
        a, r = m.baseline_metrics.model_dump(), ref.model_dump()
        for k in ("n", "sse", "rmse", "rmse_adj", "cvrmse", "cvrmse_adj", "pnrmse", "pnrmse_adj", "mae", "mbe", "r_squared", "n_prime"):
            x, y = a.get(k), r.get(k)
            if (x is None) != (y is None) or (x is not None and not np.isclose(x, y, rtol=1e-9, atol=1e-12, equal_nan=True)):
                same = False
        # the poor-fit disqualification is the gate applied to these numbers
        poor = not ((a["cvrmse_adj"] is not None and a["cvrmse_adj"] < m.settings.cvrmse_threshold) or (a["pnrmse_adj"] is not None and a["pnrmse_adj"] < m.settings.pnrmse_threshold))
        has = any(w.qualified_name == "eemeter.model_fit_metrics" for w in m.disqualification)
        gate_ok = bool(poor == has)
    else:
        C = em.DailyBaselineData if fam == "daily" else em.BillingBaselineData
        M = (lambda: em.DailyModel(model="legacy")) if fam == "daily" else em.BillingModel
        b = C(frame, **kw)
        m = M()
        if prior != "none":
            fresh = dict(M().fit(b, ignore_disqualification=True).error)
            fp, kp = lifecat.build(fam, "baseline", prior)
            m.fit(C(fp, **kp), ignore_disqualification=True)
        m.fit(b, ignore_disqualification=True)
        if prior != "none":
            as_fresh = all(close(m.error.get(k), fresh.get(k)) for k in fresh)
        pred = m.predict(b, ignore_disqualification=True)
        poor = m.error["CVRMSE"] > m.settings.cvrmse_threshold
        has = any(w.qualified_name == "eemeter.model_fit_metrics.cvrmse" for w in m.disqualification)
        gate_ok = bool(bool(poor) == has)
    return {"res": "ok", "same": bool(same), "gateOk": gate_ok, "asFresh": bool(as_fresh)}


def realise(cin, variant):
    try:
        return {"stats": _stats, "gate": _gate, "stored": _stored, "tq": _tq, "calstats": _calstats}[cin["kind"]](cin)
    except Exception as ex:
        import traceback
        return {"res": type(ex).__name__, "err": (str(ex) + traceback.format_exc())[-300:]}


def nontrivial(cin, out):
    return True


def corruptions(cin, out):
    import copy
    if out["res"] != "ok":
        return
    if cin["kind"] == "stats":
        for nm in ("sse", "rmse2", "mae", "savings", "n"):
            o = copy.deepcopy(out)
            if not o["m"][nm]["u"]:
                o["m"][nm]["n"] += 1
                yield nm, o
        if not out["m"]["cvrmse2"]["u"]:
            o = copy.deepcopy(out); o["m"]["cvrmse2"]["u"] = True; yield "undefined", o
    if cin["kind"] == "gate":
        o = copy.deepcopy(out); o["poor"] = not o["poor"]; yield "gate", o
    if cin["kind"] == "stored":
        o = copy.deepcopy(out); o["gateOk"] = False; yield "stored", o
    if cin["kind"] == "tq":
        o = copy.deepcopy(out); o["fl"] += 300; o["ce"] += 300; yield "tquantile", o
