"""C17 driver: embed an abstract cell pattern in a real hourly frame, construct the hourly data class and compare the
returned frame with the supplied one cell by cell."""
from __future__ import annotations

import numpy as np
import pandas as pd

# (days, tz, start hour of the first day, end hour of the last day, baseline?)
VARIANTS = ["4d:America/Chicago:0:23:base", "10d:Europe/London:7:15:rep", "40d:Asia/Kolkata:0:23:base", "400d:America/Chicago:5:20:base",
            "30d:America/Chicago:0:23:empty-observed", "6d:America/Chicago:3:23:rep",
            # first / last supplied day is a clock-change day (23 and 25 hours)
            "10d@2020-02-28:America/Chicago:0:23:rep", "10d@2020-10-23:America/Chicago:4:23:base", "5d@2020-03-08:America/Chicago:0:23:rep",
            "8d@2020-10-25:Europe/London:0:23:base",
            # one long contiguous outage of a column elsewhere in the frame (out<column><days>): longer than the autocorrelation fill
            # can bridge, so that the later fill stages are reached; judged through the counters over the rest of the frame
            "40d:America/Chicago:0:23:outT6", "60d:Europe/London:0:23:outO16", "400d:America/Chicago:0:23:outT21", "30d:Asia/Kolkata:0:23:outG5",
            # the same instants prepared just before as a meter of a twin zone (same offset as the zone's standard time, no clock changes)
            "10d@2020-03-24:Europe/London:0:23:rep+twin", "10d@2020-10-28:America/Chicago:0:23:base+twin",
            # re-reads appended at the end of the frame: the rows are not in time order, a duplicated timestamp still keeps its FIRST row
            "40d:America/Chicago:0:23:rep+late", "10d:Europe/London:7:15:base+late"]
_st = {}


def init():
    import opendsm.eemeter as em
    _st["em"] = em


def _frame(days, tz, h0, h1, ghi, seed, start_date=None):
    start = pd.Timestamp("2020-02-27 00:00", tz=tz) if days < 100 else pd.Timestamp("2019-10-20 00:00", tz=tz)   # spans a DST change / leap day
    if start_date:
        start = pd.Timestamp(start_date + " 00:00", tz=tz)
    end = (start.tz_localize(None) + pd.Timedelta(days=days)).tz_localize(tz)       # local midnight `days` calendar days later
    full = pd.date_range(start, end, freq="h", inclusive="left")
    last_date = full[-1].date()
    idx = full[~((full.date == full[0].date()) & (full.hour < h0)) & ~((full.date == last_date) & (full.hour > h1))]
    rng = np.random.default_rng(seed)
    hr = idx.hour.to_numpy()
    doy = idx.dayofyear.to_numpy()
    T = 50 + 20 * np.sin(2 * np.pi * (doy - 110) / 365.0) + 8 * np.sin(2 * np.pi * (hr - 9) / 24.0) + rng.normal(0, 1.5, len(idx))
    obs = 1.0 + 0.04 * np.abs(T - 60) + 0.5 * ((hr > 7) & (hr < 20)) + rng.normal(0, 0.05, len(idx))
    cols = {"temperature": np.round(T, 3), "observed": np.round(np.abs(obs) + 0.2, 4)}
    if ghi:
        # night readings carry the sensor's offset: small and positive before midnight, small and NEGATIVE after it (a supplied
        # negative irradiance is a measured value like any other and has to come back unchanged)
        cols["ghi"] = np.round(np.maximum(0, np.sin(np.pi * (hr - 6) / 12.0)) * 700 + np.where(hr < 4, -1.5, 1.0), 2)
    return pd.DataFrame(cols, index=idx)


def realise(cin, variant):
    em = _st["em"]
    d, tz, h0, h1, mode = variant.split(":")
    mode, _, twin = mode.partition("+")       # "+twin": the same instants are first prepared as a meter of a zone without clock changes, in this process
    late = twin == "late"                     # "+late": re-reads arrive late - second rows of duplicated timestamps are appended at the END of the frame (rows not in time order)
    if late:
        twin = ""
    d, _, start_date = d.partition("@")
    days, h0, h1 = int(d[:-1]), int(h0), int(h1)
    fr = _frame(days, tz, h0, h1, cin["ghi"], days, start_date or None)
    n = len(cin["cells"])
    # a little background damage elsewhere in the frame, so that the pad counters are exercised
    rng = np.random.default_rng(days + n)
    truth = fr.copy()                       # what was "supplied": NaN where nothing finite was supplied
    bg = rng.choice(np.arange(30, len(fr) - 30), size=min(6, max(1, len(fr) // 40)), replace=False)
    for k in bg[: len(bg) // 2]:
        fr.iloc[k, fr.columns.get_loc("temperature")] = np.nan
    for k in bg[len(bg) // 2:]:
        fr.iloc[k, fr.columns.get_loc("observed")] = np.nan
    cin2 = dict(cin)
    if mode == "empty-observed":
        fr["observed"] = np.nan
        cin2 = dict(cin, emptyCol="observed", cells=[dict(c, obs="nan") if c["row"] != "absent" else c for c in cin["cells"]])
    pos0 = 24 + (7 * n + days) % max(1, len(fr) - 60)
    if mode.startswith("out"):
        col = {"T": "temperature", "O": "observed", "G": "ghi"}[mode[3]]
        if col in fr.columns:
            span = 24 * int(mode[4:])
            a = len(fr) // 2 + 48
            if a - 3 <= pos0 + n and pos0 <= a + span + 3:      # keep the outage clear of the pattern under test
                a = 72 if pos0 > len(fr) // 2 else len(fr) - span - 72
            fr.iloc[a: a + span, fr.columns.get_loc(col)] = np.nan
    drop, dups = [], []
    colmap = {"T": "temperature", "obs": "observed", "G": "ghi"}
    for i, c in enumerate(cin["cells"]):
        k = pos0 + i
        ts = fr.index[k]
        if c["row"] == "absent":
            drop.append(ts)
            continue
        if c["T"] == "nan":
            fr.iloc[k, fr.columns.get_loc("temperature")] = np.nan
        if mode != "empty-observed":
            if c["obs"] == "nan":
                fr.iloc[k, fr.columns.get_loc("observed")] = np.nan
            elif c["obs"] == "zero":
                fr.iloc[k, fr.columns.get_loc("observed")] = 0.0
        if cin["ghi"] and c["G"] == "nan":
            fr.iloc[k, fr.columns.get_loc("ghi")] = np.nan
        if c["row"] == "dupfirst":
            second = fr.iloc[[k]].copy()
            second.iloc[0] = [9999.0 + j for j in range(len(fr.columns))]
            dups.append((ts, second))
    supplied = fr.copy()
    if cin["electric"]:
        supplied.loc[supplied["observed"] == 0, "observed"] = np.nan
    supplied = supplied.drop(index=drop)
    given = fr.drop(index=drop)
    if late:
        # forty more re-reads of hours elsewhere in the frame, all with other values; every one arrives after the whole first pass
        rng2 = np.random.default_rng(17 + n)
        cand = [t for t in given.index[30:-30:7] if t not in set(d[0] for d in dups)][:40]
        extra = []
        for j, ts in enumerate(cand):
            row = given.loc[[ts]].copy()
            row.iloc[0] = [5000.0 + j + c for c in range(len(given.columns))]
            extra.append(row)
        given = pd.concat([given] + [second for _, second in dups] + extra)
    else:
        for ts, second in dups:           # the duplicate comes after the first occurrence
            loc = given.index.get_loc(ts)
            given = pd.concat([given.iloc[: loc + 1], second, given.iloc[loc + 1:]])
    keep = given.copy(deep=True)
    out = {"res": "ok", "index_ok": True, "cells": [], "pad": {"badValue": 0, "badFlag": 0, "missing": 0}}
    try:
        C = em.HourlyBaselineData if mode in ("base", "empty-observed") and mode != "empty-observed" else em.HourlyReportingData
        if twin:
            try:
                C(given.tz_convert({"Europe/London": "UTC", "America/Chicago": "America/Regina"}[tz]), is_electricity_data=cin["electric"])
            except Exception:
                pass
        obj = C(given, is_electricity_data=cin["electric"])
        res = obj.df
    except Exception as ex:
        out["res"] = type(ex).__name__
        out["err"] = str(ex)[:200]
        return {"in2": cin2, "out": out}
    # every real clock hour of every local day from the first to the last supplied day (decided by local date, not by adding
    # hours to a midnight: the first or last day may have 23 or 25 hours)
    first_date, last_date = given.index.min().date(), given.index.max().date()
    span = pd.date_range(given.index.min().tz_convert("UTC") - pd.Timedelta(hours=26), given.index.max().tz_convert("UTC") + pd.Timedelta(hours=26), freq="h").tz_convert(tz)
    exp_idx = span[(span.date >= first_date) & (span.date <= last_date)]
    out["index_ok"] = bool(res.index.equals(exp_idx) and not res.index.has_duplicates)
    if not out["index_ok"]:
        return {"in2": cin2, "out": out}
    sup = supplied.reindex(res.index)
    pattern_ts = set(fr.index[pos0 + i] for i in range(n))
    cols = ["temperature", "observed"] + (["ghi"] if cin["ghi"] else [])
    for col in cols:
        s = sup[col].to_numpy(dtype=float)
        r = res[col].to_numpy(dtype=float)
        f = res["interpolated_" + col].to_numpy().astype(bool) if "interpolated_" + col in res.columns else np.zeros(len(res), bool)
        fin = np.isfinite(s)
        inpat = np.array([t in pattern_ts for t in res.index])
        empty = cin2["emptyCol"] == col
        out["pad"]["badValue"] += int(((fin & ~inpat) & (r != s)).sum())
        out["pad"]["badFlag"] += int(((fin & ~inpat) & f).sum()) + (0 if empty else int(((~fin & ~inpat) & ~f).sum()))
        out["pad"]["missing"] += 0 if empty else int((~inpat & ~np.isfinite(r)).sum())
    for i in range(n):
        ts = fr.index[pos0 + i]
        cell = {}
        for key, col in colmap.items():
            if col not in res.columns:
                cell[key] = {"kept": True, "flag": False, "present": True}
                continue
            sv = sup.at[ts, col] if col in sup.columns else np.nan
            rv = res.at[ts, col]
            fl = bool(res.at[ts, "interpolated_" + col]) if "interpolated_" + col in res.columns else False
            cell[key] = {"kept": bool(np.isfinite(sv) and rv == sv), "flag": fl, "present": bool(np.isfinite(rv))}
        out["cells"].append(cell)
    return {"in2": cin2, "out": out}


def nontrivial(cin, out):
    return any(c["row"] != "present" or c["T"] != "fin" or c["obs"] != "fin" for c in cin["cells"])


def corruptions(cin, out):
    import copy
    if out["res"] != "ok" or not out["cells"]:
        return
    for col in ("T", "obs"):
        o = copy.deepcopy(out); o["cells"][0][col]["flag"] = not o["cells"][0][col]["flag"]; yield "flag" + col, o
    o = copy.deepcopy(out); o["cells"][0]["T"]["present"] = False; yield "missing", o
    o = copy.deepcopy(out); o["pad"]["badValue"] = 1; yield "padValue", o
    o = copy.deepcopy(out); o["index_ok"] = False; yield "index", o
    kept = [i for i, c in enumerate(out["cells"]) if c["obs"]["kept"]]
    if kept:
        o = copy.deepcopy(out); o["cells"][kept[0]]["obs"]["kept"] = False; yield "value", o
