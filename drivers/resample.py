"""C08 / C09 driver: billing periods, sub-daily meter readings and sub-daily temperature feeds built from an abstract case,
pushed through the real data classes; the resulting daily values are snapped to rationals."""
from __future__ import annotations

from fractions import Fraction

import numpy as np
import pandas as pd

TZ = "America/Chicago"
_st = {}


def init():
    import opendsm.eemeter as em
    _st["em"] = em


def val(i):
    return 10 + (7 * i) % 13


def snap(x, den=5000):
    if not np.isfinite(x):
        return 0, 1, False
    fr = Fraction(float(x)).limit_denominator(den)
    ok = abs(float(fr) - x) <= 1e-9 * max(1.0, abs(x)) and abs(fr.numerator) < 3000000
    return (fr.numerator, fr.denominator, True) if ok else (0, 1, False)


def _billing(cin, variant):
    em = _st["em"]
    pers = cin["periods"]
    k_dst = 1          # the second period carries the clock change, if any
    extra = pers[k_dst]["extra"]
    first_len = pers[0]["len"]
    variant, zone = split_variant(variant)
    if extra == 0:
        start = pd.Timestamp(ZONE_QUIET[zone])      # at least 200 days without a clock change
    elif extra < 0:
        start = pd.Timestamp(ZONE_DAYS[zone][1380]) - pd.Timedelta(days=5 + first_len)      # period 2 starts 5 days before the 23-hour day
    else:
        start = pd.Timestamp(ZONE_DAYS[zone][1500]) - pd.Timedelta(days=5 + first_len)      # period 2 starts 5 days before the 25-hour day
    bounds = [start]
    for p in pers:
        bounds.append(bounds[-1] + pd.Timedelta(days=p["len"]))
    bidx = pd.DatetimeIndex(bounds).tz_localize(zone)
    meter = pd.Series([float(p["amount"]) for p in pers] + [np.nan], index=bidx, name="observed")
    days = pd.date_range(bidx[0], bidx[-1], freq="D")
    temp = pd.Series(50.0 + (np.arange(len(days)) % 20), index=days, name="temperature")
    out = {"res": "ok", "periods": []}
    try:
        C = em.BillingBaselineData if variant == "baseline" else em.BillingReportingData
        obj = C.from_series(meter, temp, is_electricity_data=False)
        df = obj.df
    except Exception as ex:
        out["res"] = type(ex).__name__
        out["err"] = str(ex)[:200]
        return out
    obs = df["observed"] if "observed" in df.columns else pd.Series(np.nan, index=df.index)
    for k, p in enumerate(pers):
        sel = obs[(obs.index >= bidx[k]) & (obs.index < bidx[k + 1])]
        fin = sel.dropna()
        rec = {"present": bool(len(fin) > 0), "ndays": int(len(fin)), "sn": 0, "sd": 1, "sok": False, "pn": 0, "pd": 1, "pok": False}
        if len(fin):
            rec["sn"], rec["sd"], rec["sok"] = snap(float(fin.sum()))
            # a plain 24-hour day: the most frequent value of the period
            plain = float(fin.round(9).mode().iloc[0])
            rec["pn"], rec["pd"], rec["pok"] = snap(plain)
        out["periods"].append(rec)
    return out


CAL_STARTS = {"w": "2019-01-15", "a": "2019-08-20", "m": "2019-03-01"}     # calendars crossing the March / the autumn clock change, starting on a month boundary


def _calendar(cin, variant):
    """a read calendar of arbitrary period lengths (the cycle is not declared); the net clock shift inside each period is
    measured from the real dates and written into the refined abstract input"""
    em = _st["em"]
    variant, zone = split_variant(variant)
    form, _, st = variant.partition("#")
    pers = cin["periods"]
    bounds = [pd.Timestamp(CAL_STARTS[st or "w"])]
    for p in pers:
        bounds.append(bounds[-1] + pd.Timedelta(days=p["len"]))
    bidx = pd.DatetimeIndex(bounds).tz_localize(zone)
    pers2 = []
    for k, p in enumerate(pers):
        minutes = int((bidx[k + 1] - bidx[k]).total_seconds() // 60)
        pers2.append(dict(p, extra=minutes - 1440 * p["len"]))
    in2 = dict(cin, periods=pers2)
    meter = pd.Series([float(p["amount"]) for p in pers] + [np.nan], index=bidx, name="observed")
    days = pd.date_range(bidx[0], bidx[-1], freq="D")
    temp = pd.Series(50.0 + (np.arange(len(days)) % 20), index=days, name="temperature")
    out = {"res": "ok", "periods": []}
    try:
        C = em.BillingBaselineData if form == "baseline" else em.BillingReportingData
        obj = C.from_series(meter, temp, is_electricity_data=False)
        df = obj.df
    except Exception as ex:
        out["res"] = type(ex).__name__
        out["err"] = str(ex)[:200]
        return {"in2": in2, "out": out}
    obs = df["observed"] if "observed" in df.columns else pd.Series(np.nan, index=df.index)
    for k, p in enumerate(pers):
        sel = obs[(obs.index >= bidx[k]) & (obs.index < bidx[k + 1])]
        fin = sel.dropna()
        rec = {"present": bool(len(fin) > 0), "ndays": int(len(fin)), "sn": 0, "sd": 1, "sok": False, "pn": 0, "pd": 1, "pok": False}
        if len(fin):
            rec["sn"], rec["sd"], rec["sok"] = snap(float(fin.sum()))
            plain = float(fin.round(9).mode().iloc[0])
            rec["pn"], rec["pd"], rec["pok"] = snap(plain)
        out["periods"].append(rec)
    return {"in2": in2, "out": out}


def _dailyreads(cin, variant):
    """one reading a day at local midnight; the first day is a plain day or the zone's 23- / 25-hour day"""
    em = _st["em"]
    form, zone = split_variant(variant)
    first = {"plain": 1440, "short": 1380, "long": 1500}[cin["first"]]
    n = cin["n"]
    days = pd.date_range(pd.Timestamp(ZONE_DAYS[zone][first]), periods=n, freq="D").tz_localize(zone)
    vals = np.array([np.nan if (i + 1) in cin["missing"] else float(val(i + 1)) for i in range(n)])
    meter = pd.Series(vals, index=days, name="observed")
    temp = pd.Series(50.0 + (np.arange(n) % 20), index=days, name="temperature")
    out = {"res": "ok", "days": []}
    try:
        if form == "series":
            obj = em.DailyBaselineData.from_series(meter, temp, is_electricity_data=False)
        elif form == "series-hfeed":
            hidx = pd.date_range(days[0], days[-1] + pd.Timedelta(hours=23), freq="h")
            obj = em.DailyBaselineData.from_series(meter, pd.Series(55.0 + (hidx.hour.to_numpy() % 12), index=hidx, name="temperature"), is_electricity_data=False)
        else:
            obj = em.DailyBaselineData(pd.DataFrame({"observed": meter, "temperature": temp}), is_electricity_data=False)
        df = obj.df
    except Exception as ex:
        out["res"] = type(ex).__name__
        out["err"] = str(ex)[:200]
        return out
    for i in range(n - 1):
        row = df[df.index.date == days[i].date()]
        rec = {"has": False, "n": 0, "d": 1, "ok": False}
        if len(row) == 1 and "observed" in df.columns and np.isfinite(row["observed"].iloc[0]):
            rec["has"] = True
            rec["n"], rec["d"], rec["ok"] = snap(float(row["observed"].iloc[0]))
        elif len(row) > 1:
            rec["has"], rec["ok"] = True, False
        out["days"].append(rec)
    return out


# zone -> dates of a plain day, the 23-hour day and the 25-hour day of 2019 (whole-hour clock changes)
ZONE_DAYS = {
    "America/Chicago":  {1440: "2019-05-15", 1380: "2019-03-10", 1500: "2019-11-03"},
    "Europe/London":    {1440: "2019-05-15", 1380: "2019-03-31", 1500: "2019-10-27"},
    "Australia/Sydney": {1440: "2019-05-15", 1380: "2019-10-06", 1500: "2019-04-07"},
}
# zone -> a start from which at least 200 days pass without a clock change
ZONE_QUIET = {"America/Chicago": "2019-03-12", "Europe/London": "2019-04-02"}


# twin zone: the same UTC offset as the zone's standard time all year round
TWINS = {"Europe/London": "UTC", "America/Chicago": "America/Regina"}
TWIN_WINDOW = {"Europe/London": ("2019-02-20", "2019-11-20"), "America/Chicago": ("2019-02-20", "2019-11-20")}


def split_variant(variant):
    v, _, zone = variant.partition("@")
    return v, (zone or TZ)


def _target_date(day_min, zone=TZ):
    return ZONE_DAYS[zone][day_min]


def _day_index(date, interval, zone=TZ, mh=0):
    """readings of 9 meter days around the target; the mask selects the meter day (mh:00 .. next mh:00) that contains the
    clock change of `date` (for mh > 0 it starts on the previous calendar day)"""
    d = pd.Timestamp(date)
    start = (d - pd.Timedelta(days=4)).tz_localize(zone)
    end = (d + pd.Timedelta(days=5)).tz_localize(zone)
    idx = pd.date_range(start, end, freq="%dmin" % interval, inclusive="left")
    if mh == 0:
        return idx, idx.date == d.date()
    lo = (d - pd.Timedelta(days=1) + pd.Timedelta(hours=mh)).tz_localize(zone)
    hi = (d + pd.Timedelta(hours=mh)).tz_localize(zone)
    return idx, (idx >= lo) & (idx < hi)


def _subdaily(cin, variant):
    em = _st["em"]
    variant, zone = split_variant(variant)
    date = _target_date(cin["dayMin"], zone)
    variant, _, twin = variant.partition("+")
    if twin:
        # a long window that starts and ends in standard time; the same instants are first processed as a meter of the twin zone
        # (same UTC offsets at both ends of the window, no clock change in between), in the same process, just before
        lo, hi = TWIN_WINDOW[zone]
        idx = pd.date_range(pd.Timestamp(lo, tz=zone), pd.Timestamp(hi, tz=zone), freq="%dmin" % cin["interval"], inclusive="left")
        on = idx.date == pd.Timestamp(date).date()
    else:
        idx, on = _day_index(date, cin["interval"], zone)
    obs = np.full(len(idx), 5.0)
    pos = np.where(on)[0]
    if len(pos) != cin["total"]:
        return {"res": "BadRealisation", "err": "%d readings on the day, expected %d" % (len(pos), cin["total"]), "has": False, "n": 0, "d": 1, "ok": False, "nrows": 1}
    for i, p in enumerate(pos, start=1):
        obs[p] = np.nan if i in cin["missing"] else float(val(i))
    if variant.startswith("absent-rows"):
        keep = ~np.isnan(obs)
    else:
        keep = np.ones(len(idx), bool)
    hr = idx.hour.to_numpy()
    frame = pd.DataFrame({"temperature": 55.0 + (hr % 12), "observed": obs}, index=idx)[keep]
    if variant.endswith("-from7"):          # the meter's first reading is at 07:00 of the first day, not at local midnight
        frame = frame[frame.index >= frame.index[0] + pd.Timedelta(hours=7)]
    out = {"res": "ok", "has": False, "n": 0, "d": 1, "ok": False, "nrows": 1}
    try:
        if twin:
            em.DailyBaselineData(frame.tz_convert(TWINS[zone]), is_electricity_data=False)
        obj = em.DailyBaselineData(frame, is_electricity_data=False)
        df = obj.df
    except Exception as ex:
        out["res"] = type(ex).__name__
        out["err"] = str(ex)[:200]
        return out
    row = df[df.index.date == pd.Timestamp(date).date()]
    out["nrows"] = int(len(row))
    if len(row) == 1 and "observed" in df.columns and np.isfinite(row["observed"].iloc[0]):
        out["has"] = True
        out["n"], out["d"], out["ok"] = snap(float(row["observed"].iloc[0]))
    return out


def _temp(cin, variant):
    em = _st["em"]
    variant, zone = split_variant(variant)
    variant, _, elec0 = variant.partition("!")     # "!e0": an electricity meter that reads exactly 0 on the judged day and the next one
    mh = cin.get("mh", 0)
    date = _target_date(cin["dayMin"], zone)
    idx, on = _day_index(date, cin["interval"], zone, mh)
    t = np.full(len(idx), 50.0)
    pos = np.where(on)[0]
    if len(pos) != cin["total"]:
        return {"res": "BadRealisation", "err": "%d readings" % len(pos), "has": False, "n": 0, "d": 1, "ok": False, "notnull": -1, "null": -1}
    for i, p in enumerate(pos, start=1):
        t[p] = np.nan if i in cin["missing"] else float(val(i))
    feed = pd.Series(t, index=idx, name="temperature")
    if variant == "feed-utc":
        feed.index = feed.index.tz_convert("UTC")
    elif variant == "feed-kolkata":             # the same instants written with a +05:30 offset
        feed.index = feed.index.tz_convert("Asia/Kolkata")
    wall = pd.date_range(idx[0].tz_localize(None).normalize(), idx[-1].tz_localize(None).normalize(), freq="D") + pd.Timedelta(hours=mh)
    days = wall.tz_localize(zone)
    if mh:
        days = days[:-1]                        # the last meter day would start after the last reading
    meter = pd.Series(20.0 + np.arange(len(days)), index=days, name="observed")
    if elec0:
        tgt = (pd.Timestamp(date) - pd.Timedelta(days=1 if mh else 0)).date()
        meter[(meter.index.date == tgt) | (meter.index.date == (pd.Timestamp(tgt) + pd.Timedelta(days=1)).date())] = 0.0
    out = {"res": "ok", "has": False, "n": 0, "d": 1, "ok": False, "notnull": -1, "null": -1}
    if variant.startswith("nometer"):
        # a reporting period without any meter reading: only the weather feed is handed over (in UTC with tzinfo= the meter's zone, or as
        # a local-time frame that starts at 07:00); the days are the local calendar days all the same
        try:
            if variant == "nometer-utc":
                f2 = feed.copy()
                f2.index = f2.index.tz_convert("UTC")
                obj = em.DailyReportingData.from_series(None, f2, tzinfo=idx.tz)
            else:
                obj = em.DailyReportingData(feed[feed.index >= feed.index[0] + pd.Timedelta(hours=7)].to_frame("temperature"), is_electricity_data=True)
            df = obj.df
        except Exception as ex:
            out["res"] = type(ex).__name__
            out["err"] = str(ex)[:200]
            return {"in2": dict(cin, nometer=True), "out": out}
        row = df[df.index.date == pd.Timestamp(date).date()]
        if len(row) == 1 and np.isfinite(row["temperature"].iloc[0]) and row.index[0].hour == 0:
            out["has"] = True
            out["n"], out["d"], out["ok"] = snap(float(row["temperature"].iloc[0]))
        elif len(row) == 1 and np.isfinite(row["temperature"].iloc[0]):
            out["has"], out["ok"] = True, False          # a day that is not stamped at local midnight is not that local day
        return {"in2": dict(cin, nometer=True), "out": out}
    try:
        C = em.DailyBaselineData if variant != "billing" else em.DailyBaselineData
        obj = C.from_series(meter, feed, is_electricity_data=bool(elec0))
        df = obj.df
        combined = pd.concat([meter.to_frame("observed"), feed.tz_convert(zone).to_frame("temperature")], axis=1)
        cov = obj._set_data(combined)[1]
    except Exception as ex:
        out["res"] = type(ex).__name__
        out["err"] = str(ex)[:200]
        return out
    # the meter day that contains the clock change: the calendar day itself, or (meter read at mh:00) the one starting the day before
    target = (pd.Timestamp(date) - pd.Timedelta(days=1 if mh else 0)).date()
    row = df[df.index.date == target]
    if len(row) == 1 and np.isfinite(row["temperature"].iloc[0]):
        out["has"] = True
        out["n"], out["d"], out["ok"] = snap(float(row["temperature"].iloc[0]))
    c = cov[cov.index.date == target]
    if len(c) >= 1 and "temperature_not_null" in c.columns:
        out["notnull"] = int(c["temperature_not_null"].sum())
        out["null"] = int(c["temperature_null"].sum())
    return out


def realise(cin, variant):
    try:
        return {"billing": _billing, "calendar": _calendar, "dailyreads": _dailyreads, "subdaily": _subdaily, "temp": _temp}[cin["kind"]](cin, variant)
    except Exception as ex:
        import traceback
        return {"res": "DriverError:" + type(ex).__name__, "err": (str(ex) + traceback.format_exc())[-300:], "periods": [], "days": [], "nrows": 1, "has": False, "n": 0, "d": 1, "ok": False, "notnull": -1, "null": -1}


def nontrivial(cin, out):
    return cin["kind"] in ("billing", "calendar", "dailyreads") or len(cin["missing"]) > 0


def corruptions(cin, out):
    import copy
    if out["res"] != "ok":
        return
    if cin["kind"] in ("billing", "calendar"):
        for k, p in enumerate(out["periods"]):
            if p["present"]:
                o = copy.deepcopy(out); o["periods"][k]["sn"] += o["periods"][k]["sd"]; yield "sum", o
                o = copy.deepcopy(out); o["periods"][k]["ndays"] -= 1; yield "ndays", o
                break
        for k, p in enumerate(out["periods"]):
            if not p["present"]:
                o = copy.deepcopy(out); o["periods"][k]["present"] = True; yield "notDropped", o
                break
    elif cin["kind"] == "dailyreads":
        if out["days"] and out["days"][0]["has"]:
            o = copy.deepcopy(out); o["days"][0]["n"] += o["days"][0]["d"]; yield "dayValue", o
            o = copy.deepcopy(out); o["days"][0]["has"] = False; yield "dayMissing", o
    else:
        if out["has"]:
            o = copy.deepcopy(out); o["n"] += o["d"]; yield "value", o
            o = copy.deepcopy(out); o["has"] = False; yield "missing", o
        else:
            o = copy.deepcopy(out); o["has"] = True; o["ok"] = True; o["n"], o["d"] = 1, 1; yield "present", o
        if cin["kind"] == "temp":
            o = copy.deepcopy(out); o["notnull"] += 1; yield "count", o
