"""C07 / C06 (daily, billing) driver: embed an abstract row pattern in a real reporting frame, predict with a constructed
document, and project the returned frame row by row."""
from __future__ import annotations

import numpy as np
import pandas as pd

from . import docs

L = 377580          # lcm(28..31): per-day usage constants divisible by every month length stay integer through the billing spread
VARIANTS = ["pad30_chicago", "pad30_kolkata", "pad120_chicago", "pad366_london", "pad30_chicago_nullable", "pad30_chicago_extra"]      # _extra: the frame carries further columns with gaps of their own      # _nullable: temperature as a pandas nullable Float64 column (pd.NA)
_models = {}
_em = {}


def init():
    import opendsm.eemeter as em
    _em["em"] = em


def _model(fam, tz, m):
    key = (fam, tz, tuple(sorted(m.items())))
    if key not in _models:
        co = docs.coeffs("hdd_tidd_cdd", m["c"], m["hbp"], m["hb"], None, m["cbp"], m["cb"], None)
        doc = docs.document({"fw-su_sh_wi": docs.submodel(co, f_unc=3.0)}, tz=tz, profile="legacy", billing=(fam == "billing"))
        _models[key] = docs.load(doc, billing=(fam == "billing"))
    return _models[key]


def _variant(v):
    v = v.replace("_nullable", "").replace("_extra", "")
    tz = {"pad30_chicago": "America/Chicago", "pad30_kolkata": "Asia/Kolkata", "pad120_chicago": "America/Chicago", "pad366_london": "Europe/London"}[v]
    total = {"pad30_chicago": 30, "pad30_kolkata": 30, "pad120_chicago": 120, "pad366_london": 366}[v]
    return tz, total


def concrete_rows(cin, variant):
    """abstract rows -> day-level list of (T class, Tv, obs class, ov)"""
    tz, total = _variant(variant)
    rows = [dict(r) for r in cin["rows"]]
    if cin["fam"] == "daily":
        n = len(rows)
        pad = max(0, total - n)
        off = (n * 7 + total) % (pad + 1) if pad else 0
        out = []
        for k in range(off):
            out.append({"T": "fin", "Tv": 20 + (11 * k) % 70, "obs": "fin", "ov": 100 + k % 13})
        out += rows
        for k in range(pad - off):
            out.append({"T": "fin", "Tv": 25 + (7 * k) % 60, "obs": "fin", "ov": 90 + k % 19})
        return out, tz, None
    # billing: one abstract row = one calendar month of a real billing series; whole-hour DST changes are avoided so that
    # the per-day spread of an amount divisible by the month length stays an integer
    start = {"America/Chicago": pd.Timestamp("2019-06-01"), "Asia/Kolkata": pd.Timestamp("2019-12-01"), "Europe/London": pd.Timestamp("2020-04-01")}[tz]
    out = []
    months = pd.date_range(start, periods=len(rows), freq="MS")
    for r, ms in zip(rows, months):
        for k in range(ms.days_in_month):
            out.append({"T": r["T"], "Tv": (20 + (13 * (k + ms.month)) % 70) if r["T"] == "fin" else 0, "obs": r["obs"],
                        "ov": (L * (1 + ms.month % 3) * (-1 if r.get("ov", 0) < 0 else 1)) if r["obs"] == "fin" else 0})
    return out, tz, start


def realise(cin, variant):
    em = _em["em"]
    rows, tz, start = concrete_rows(cin, variant)
    n = len(rows)
    billing = cin["fam"] == "billing"
    if start is None:
        start = pd.Timestamp("2020-02-20") if n < 200 else pd.Timestamp("2019-12-25")
    idx = pd.date_range(pd.Timestamp(start, tz=tz), periods=n, freq="D")
    tv = {"nan": np.nan, "inf": np.inf, "ninf": -np.inf}
    T = np.array([float(r["Tv"]) if r["T"] == "fin" else tv[r["T"]] for r in rows])
    obs = np.array([float(r["ov"]) if r["obs"] == "fin" else np.nan for r in rows])
    for r in rows:
        r["Tint"] = r["T"] == "fin"
    cin2 = {"fam": cin["fam"], "model": cin["model"], "rows": rows}
    model = _model(cin["fam"], tz, cin["model"])
    out = {"res": "ok", "rows_ok": True, "rows": [], "obsCol": False, "sumPred": 0, "sumObs": 0, "sumRow": 0}
    try:
        if not billing:
            frame = pd.DataFrame({"temperature": T, "observed": obs}, index=idx)
            if variant.endswith("_nullable"):       # what convert_dtypes() / read_csv(dtype_backend="numpy_nullable") hand over: missing is pd.NA
                frame["temperature"] = pd.array(np.where(np.isnan(T), 0.0, T), dtype="Float64")
                frame.loc[np.isnan(T), "temperature"] = pd.NA
            if variant.endswith("_extra"):          # a sparse note and a reviewer column: their gaps say nothing about temperature or usage
                frame["reading_quality"] = np.where(np.arange(len(frame)) % 3 == 0, np.nan, 1.0)
                frame["reviewed_by"] = [None if k % 4 == 1 else "ab" for k in range(len(frame))]
            data = em.DailyReportingData(frame, is_electricity_data=False)
        else:
            temp = pd.Series(T, index=idx, name="temperature")
            if variant.endswith("_nullable"):
                temp = pd.Series(pd.array(np.where(np.isnan(T), 0.0, T), dtype="Float64"), index=idx, name="temperature")
                temp[np.isnan(T)] = pd.NA
            ms = pd.date_range(idx[0], periods=len(cin["rows"]) + 1, freq="MS")
            amounts = []
            for k, r in enumerate(cin["rows"]):
                sel = (idx >= ms[k]) & (idx < ms[k + 1])
                amounts.append(float(np.nansum(obs[sel])) if r["obs"] == "fin" else np.nan)
            meter = pd.Series(amounts + [np.nan], index=ms, name="observed")
            if np.all(np.isnan(meter.to_numpy())):
                data = em.BillingReportingData.from_series(None, temp, is_electricity_data=False, tzinfo=idx.tz)
            else:
                data = em.BillingReportingData.from_series(meter, temp, is_electricity_data=False)
    except Exception as ex:
        # no data object could be built from this frame: whether that is right is C10's question, predict was never called
        out["res"] = "noobject"
        out["err"] = "%s: %s" % (type(ex).__name__, str(ex)[:200])
        return {"in2": cin2, "out": out}
    try:
        res = model.predict(data, ignore_disqualification=True)
    except Exception as ex:
        out["res"] = type(ex).__name__
        out["err"] = str(ex)[:200]
        return {"in2": cin2, "out": out}
    # The input of predict is the data object: the abstract rows judged by TLC are re-measured on data.df (what the data class
    # made of the caller's frame is C08/C09/C10's question, not C07's).
    ddf = data.df
    out["rows_ok"] = bool(res.index.equals(ddf.index))
    out["obsCol"] = "observed" in res.columns
    rows = []
    dT = ddf["temperature"].to_numpy(dtype=float)
    dO = ddf["observed"].to_numpy(dtype=float) if "observed" in ddf.columns else np.full(len(ddf), np.nan)
    for k in range(len(ddf)):
        t, o = dT[k], dO[k]
        tc = "fin" if np.isfinite(t) else ("nan" if np.isnan(t) else ("inf" if t > 0 else "ninf"))
        tint = bool(np.isfinite(t) and float(int(round(t))) == t)
        oint = bool(np.isfinite(o) and float(int(round(o))) == o)
        rows.append({"T": tc, "Tv": int(round(t)) if tint else 0, "Tint": tint, "obs": "fin" if np.isfinite(o) else "nan",
                     "ov": int(round(o)) if oint else (-7 if np.isfinite(o) else 0)})
    cin2 = {"fam": cin["fam"], "model": cin["model"], "rows": rows}
    if not out["rows_ok"]:
        return {"in2": cin2, "out": out}
    pred = res["predicted"].to_numpy(dtype=float)
    ob = res["observed"].to_numpy(dtype=float) if out["obsCol"] else np.full(len(res), np.nan)
    hl = res["heating_load"].to_numpy(dtype=float)
    cl = res["cooling_load"].to_numpy(dtype=float)
    c = float(cin["model"]["c"])
    for k in range(len(res)):
        pf = bool(np.isfinite(pred[k]))
        of = bool(np.isfinite(ob[k]))
        pv = int(round(pred[k])) if pf else 0
        ov = int(round(ob[k])) if of else 0
        loads = True
        if pf:
            loads = bool(hl[k] >= 0 and cl[k] >= 0 and (hl[k] == 0 or cl[k] == 0) and (c + hl[k] + cl[k] == pred[k]))
        out["rows"].append({"pred": "fin" if pf else "nan", "pv": pv, "exact": bool((not pf) or float(pv) == pred[k]),
                            "obs": "fin" if of else "nan", "ov": ov if ((not of) or float(ov) == ob[k]) else (-7 if dO[k] == ob[k] else -1), "loadsOk": loads})
    sp = float(res["predicted"].sum())
    so = float(res["observed"].sum()) if out["obsCol"] else 0.0
    both = np.isfinite(pred) & np.isfinite(ob)
    sr = float((pred[both] - ob[both]).sum())
    out["sumPred"] = int(round(sp)) if float(int(round(sp))) == sp else -1
    out["sumObs"] = int(round(so)) if float(int(round(so))) == so else -1
    out["sumRow"] = int(round(sr)) if float(int(round(sr))) == sr else -2
    return {"in2": cin2, "out": out}


def nontrivial(cin, out):
    return any(r["pred"] == "nan" for r in out.get("rows", [])) or out["res"] != "ok"


def corruptions(cin, out):
    import copy
    if out["res"] != "ok" or not out["rows"]:
        return
    k = len(out["rows"]) // 2
    o = copy.deepcopy(out); o["rows"][k]["pred"] = "nan" if o["rows"][k]["pred"] == "fin" else "fin"; yield "flipPred", o
    if out["obsCol"]:
        o = copy.deepcopy(out); o["rows"][k]["obs"] = "nan" if o["rows"][k]["obs"] == "fin" else "fin"; yield "flipObs", o
        o = copy.deepcopy(out); o["sumObs"] += 1; yield "sumObs", o
    o = copy.deepcopy(out); o["sumPred"] += 1; yield "sumPred", o
    o = copy.deepcopy(out); o["rows"] = o["rows"][:-1]; yield "dropRow", o
    fin = [i for i, r in enumerate(out["rows"]) if r["pred"] == "fin"]
    if fin:
        o = copy.deepcopy(out); o["rows"][fin[0]]["pv"] += 1; yield "predValue", o
