"""C18 driver: real segment_time_series, a CalTRACKHourlyModel wired with provenance-tagged month models, the bin / occupancy /
time feature functions; outcomes projected to integers for SegTrace.tla."""
from __future__ import annotations

import numpy as np
import pandas as pd

_st = {}
SEG_ORDER = {
    "single": ["all"],
    "one_month": ["jan", "feb", "mar", "apr", "may", "jun", "jul", "aug", "sep", "oct", "nov", "dec"],
    "three_month": ["dec-jan-feb", "jan-feb-mar", "feb-mar-apr", "mar-apr-may", "apr-may-jun", "may-jun-jul", "jun-jul-aug",
                    "jul-aug-sep", "aug-sep-oct", "sep-oct-nov", "oct-nov-dec", "nov-dec-jan"],
}
SEG_ORDER["three_month_weighted"] = [s + "-weighted" for s in SEG_ORDER["three_month"]]
# column k (0-based) of the three-month tables is centred on month k+1


def init():
    from opendsm.eemeter.models.hourly_caltrack.segmentation import segment_time_series, SegmentedModel
    from opendsm.eemeter.models.hourly_caltrack import model as cm
    from opendsm.eemeter.common.features import compute_temperature_bin_features, compute_time_features
    _st.update(seg=segment_time_series, SegmentedModel=SegmentedModel, cm=cm, bins=compute_temperature_bin_features, tf=compute_time_features)
    _st["cache"] = {}


def _year_index(y, tz):
    key = ("idx", y, tz)
    if key not in _st["cache"]:
        _st["cache"][key] = pd.date_range(pd.Timestamp("%d-01-01" % y, tz=tz), pd.Timestamp("%d-01-01" % (y + 1), tz=tz), freq="h", inclusive="left")
    return _st["cache"][key]


def _weights(cin):
    idx = _year_index(cin["y"], cin["tz"])
    key = ("w", cin["type"], cin["y"], cin["tz"])
    if key not in _st["cache"]:
        # a decoy first: the same UTC window as seen from a zone nine hours away (data pulled for one UTC window and converted per
        # site) is segmented just before, in this process - the weights of an index are those of ITS OWN local months
        _st["seg"](idx.tz_convert("Asia/Tokyo" if cin["tz"] != "Asia/Tokyo" else "America/Chicago"), cin["type"])
        _st["cache"][key] = _st["seg"](idx, cin["type"])
    w = _st["cache"][key]
    out = {"res": "ok", "nd": 0, "w2": [], "colsOk": list(w.columns) == SEG_ORDER[cin["type"]] and w.index.equals(idx)}
    rows = w[idx.month == cin["m"]]
    d = rows.drop_duplicates()
    out["nd"] = int(len(d))
    if len(d) >= 1:
        v = d.iloc[0].to_numpy(dtype=float) * 2
        out["w2"] = [int(x) if float(int(x)) == x else -1 for x in v]
    return out


class _Stub:
    """stands in for a fitted month model: predicts the centre month of the segment it was 'fitted' on"""

    def __init__(self, name, code):
        self.segment_name = name
        self.code = code
        self.warnings = []

    def predict(self, data):
        return pd.Series(float(self.code), index=data.index, name="predicted_usage")

    def json(self):
        return {}


def _route(cin):
    cm = _st["cm"]
    fit = cin.get("fit", "all")
    key = ("model", fit)
    if key not in _st["cache"]:
        names = SEG_ORDER["three_month_weighted"]
        stubs = [_Stub(n, k + 1) for k, n in enumerate(names)]
        if fit == "djf":                # a short baseline: only the segments centred on December, January, February were fitted
            stubs = [s for s in stubs if s.code in (12, 1, 2)]      # the occupancy / bin tables keep all twelve columns
        how = pd.Series(range(168), name="hour_of_week")
        occ = pd.DataFrame({n: 1 for n in names}, index=how)
        bins = pd.DataFrame({n: [False] * 6 for n in names}, index=pd.Series([30, 45, 55, 65, 75, 90], name="bin_endpoints"))
        _st["cache"][key] = cm.CalTRACKHourlyModel(stubs, occ, bins, bins.copy(), "three_month_weighted")
    model = _st["cache"][key]
    idx = _year_index(cin["y"], cin["tz"])
    pkey = ("pred", fit, cin["y"], cin["tz"])
    if pkey not in _st["cache"]:
        temp = pd.Series(60.0, index=idx)
        _st["cache"][pkey] = model.predict(idx, temp).result["predicted_usage"]
    pred = _st["cache"][pkey]
    sel = pred[idx.month == cin["m"]]
    vals = sel.dropna().unique()
    return {"res": "ok", "nd": int(len(vals)), "code": int(vals[0]) if len(vals) and float(int(vals[0])) == vals[0] else -1,
            "nnan": int(sel.isna().sum() + (0 if pred.index.equals(idx) else 1))}


def _ints(a):
    exact = True
    out = []
    for x in a:
        r = int(round(float(x))) if np.isfinite(x) else -99999
        exact = exact and np.isfinite(x) and float(r) == float(x)
        out.append(r)
    return out, exact


def _bins(cin):
    idx = pd.date_range("2020-01-06", periods=3, freq="h", tz="UTC")
    t = pd.Series([float(cin["T"]), np.nan, float(cin["T"])], index=idx)
    df = _st["bins"](t, list(cin["E"]))
    b, exact = _ints(df.iloc[0].to_numpy(dtype=float))
    exact = exact and bool(df.iloc[1].isna().all()) and list(df.columns) == ["bin_%d" % i for i in range(len(cin["E"]) + 1)] \
        and bool((df.iloc[0] == df.iloc[2]).all())
    return {"res": "ok", "bins": b, "exact": bool(exact)}


def _occ(cin):
    cm = _st["cm"]
    idx = pd.date_range("2020-01-06", periods=168, freq="h", tz="UTC")      # a Monday: hour of week = position
    seg = "may-jun-jul-weighted"
    occupancy = pd.DataFrame({seg: [(k % 2) for k in range(168)]}, index=pd.Series(range(168), name="hour_of_week"))
    ends = [30, 45, 55, 65, 75, 90]
    ob = pd.DataFrame({seg: [e in cin["Eo"] for e in ends]}, index=pd.Series(ends, name="bin_endpoints"))
    ub = pd.DataFrame({seg: [e in cin["Eu"] for e in ends]}, index=pd.Series(ends, name="bin_endpoints"))
    data = pd.DataFrame({"temperature_mean": float(cin["T"]), "weight": 1.0}, index=idx)
    feat = cm.caltrack_hourly_prediction_feature_processor(seg, data, occupancy, ob, ub)
    row = feat.iloc[10 + cin["occ"]]                 # hour 10 is unoccupied (even), hour 11 occupied (odd)
    o, e1 = _ints([row["bin_%d_occupied" % i] for i in range(len(cin["Eo"]) + 1)])
    u, e2 = _ints([row["bin_%d_unoccupied" % i] for i in range(len(cin["Eu"]) + 1)])
    ncols = len([c for c in feat.columns if c.endswith("occupied")])
    return {"res": "ok", "obins": o, "ubins": u, "exact": bool(e1 and e2 and ncols == len(cin["Eo"]) + len(cin["Eu"]) + 2)}


# Monday-to-Sunday weeks of local hours, in the order of HowWeeks (SegDefs.tla): plain; Sundays of 23 / 25 hours in four zones
HOW_WEEKS = [("2020-01-06", "America/Chicago"), ("2020-03-02", "America/Chicago"), ("2020-10-26", "America/Chicago"),
             ("2020-03-30", "Australia/Sydney"), ("2020-09-28", "Australia/Sydney"), ("2020-03-23", "Europe/Berlin"),
             ("2020-10-19", "Europe/Berlin"), ("2020-03-02", "America/Havana")]
_how_memo = {}


def _how(cin):
    wk = cin.get("wk", 0)
    if wk not in _how_memo:
        day, tz = HOW_WEEKS[wk]
        t0 = pd.Timestamp(day, tz=tz)
        idx = pd.date_range(t0, pd.Timestamp(day, tz=tz) + pd.DateOffset(days=7), freq="h", inclusive="left")
        _how_memo[wk] = (idx, _st["tf"](idx))
    idx, f = _how_memo[wk]
    row = f[(idx.dayofweek == cin["dow"]) & (idx.hour == cin["hour"])]
    vals = sorted(set(int(v) for v in row["hour_of_week"]))
    return {"res": "ok", "n": int(len(row)), "how": vals[0] if len(vals) == 1 else -1}


def realise(cin, variant):
    try:
        return {"weights": _weights, "route": _route, "bins": _bins, "occ": _occ, "how": _how}[cin["kind"]](cin)
    except Exception as ex:
        return {"res": type(ex).__name__, "err": str(ex)[:200]}


def nontrivial(cin, out):
    return cin["kind"] != "bins" or len(cin["E"]) > 0


def corruptions(cin, out):
    import copy
    if out["res"] != "ok":
        return
    k = cin["kind"]
    if k == "weights" and out["w2"]:
        o = copy.deepcopy(out); o["w2"][0] = (o["w2"][0] + 1) % 3; yield "weight", o
        o = copy.deepcopy(out); o["nd"] = 2; yield "nd", o
    if k == "route":
        o = copy.deepcopy(out); o["code"] = o["code"] % 12 + 1; yield "code", o
    if k == "bins":
        o = copy.deepcopy(out); o["bins"][-1] += 1; yield "bin", o
    if k == "occ":
        o = copy.deepcopy(out); o["obins"][0] += 1; o["ubins"][0] += 1; yield "both", o
    if k == "how":
        o = copy.deepcopy(out); o["how"] += 1; yield "how", o
