"""C18, code -> spec on executions the harness did not script: the repository's own tests that segment time series are run
with the guarded call-tracing hook on; every recorded public call of segment_time_series is split - mechanically: rows
grouped by the local calendar month of their timestamp - into the `weights` cases of SegDefs (one per month the index
touches) and judged by TLC (SegTrace.tla)."""
from __future__ import annotations

import glob
import json
import os
import shutil
import subprocess

import numpy as np
import pandas as pd

from .seg import SEG_ORDER

TESTS = ["tests/test_segmentation.py", "tests/test_caltrack_hourly.py", "tests/test_caltrack_design_matrices.py"]


def record(workdir):
    repo = os.environ.get("VERIF_REPO", "/repo")
    tdir = os.path.join(workdir, "repo_traces")
    shutil.rmtree(tdir, ignore_errors=True)
    os.makedirs(tdir)
    env = dict(os.environ)
    env.update({"OPENDSM_EEMETER_VERIF": "1", "OPENDSM_EEMETER_VERIF_TRACE": os.path.join(tdir, "calls"), "PYTHONPATH": repo, "PYTHONHASHSEED": "0"})
    cmd = ["/venv/bin/python", "-m", "pytest", "-q", "-p", "no:cacheprovider", "-o", "addopts=", "-n", "4", "--timeout=900"] + TESTS
    p = subprocess.run(cmd, cwd=repo, env=env, stdout=subprocess.PIPE, stderr=subprocess.STDOUT, text=True)
    summary = [l for l in p.stdout.splitlines() if " passed" in l or " failed" in l or " error" in l]
    recs = []
    for f in sorted(glob.glob(os.path.join(tdir, "calls.*"))):
        for line in open(f):
            r = json.loads(line)
            if r.get("fn") == "segment_time_series":
                recs.append(r)
    recs.sort(key=lambda r: (r.get("test", ""), r.get("seq", 0)))
    shutil.rmtree(tdir, ignore_errors=True)
    return recs, (summary[-1].strip("= ") if summary else p.stdout[-300:])


def convert(k0, rec):
    """One recorded call -> list of cases (one per local calendar month the index touches), or {skip: reason}."""
    pr = rec["params"]
    typ = pr.get("segment_type")
    idx = pr.get("index")
    if typ not in SEG_ORDER:
        return {"skip": "segment type %r is not one of the four documented types" % (typ,)}
    if not isinstance(idx, dict) or "index_ns" not in idx or idx.get("tz") in (None, "None"):
        return {"skip": "index is not a timezone-aware DatetimeIndex"}
    if rec["out"] != "ok":
        return [{"id": k0, "in": {"kind": "weights", "type": typ, "y": 0, "m": 1, "tz": idx["tz"]},
                 "out": {"res": rec["out"], "nd": 0, "w2": [], "colsOk": False}, "variant": rec.get("test", "").split(" ")[0]}]
    res = rec.get("result")
    if not (isinstance(res, dict) and res.get("type") == "frame" and "distinct_rows" in res and res.get("index_ns") == idx["index_ns"]):
        return {"skip": "result is not a weight table over the input index"}
    full = SEG_ORDER[typ]
    cols = res["columns"]
    dropped = bool(pr.get("drop_zero_weight_segments"))
    # documented columns in documented order; with drop_zero_weight_segments a subsequence of them
    cols_ok = cols == full if not dropped else (cols == [c for c in full if c in cols])
    pos = {c: i for i, c in enumerate(cols)}
    local = pd.DatetimeIndex(np.array(idx["index_ns"], dtype="int64").astype("datetime64[ns]"), tz="UTC").tz_convert(idx["tz"])
    code = np.array(res["row_code"])
    out = []
    for (y, m) in sorted(set(zip(local.year, local.month))):
        sel = (local.year == y) & (local.month == m)
        kinds = sorted(set(code[sel].tolist()))
        row = res["distinct_rows"][kinds[0]]
        w2 = []
        for c in full:
            v = 2 * row[pos[c]] if c in pos else 0.0          # a dropped column carried zero weight throughout
            w2.append(int(v) if float(int(v)) == v else -1)
        out.append({"id": k0 + len(out), "in": {"kind": "weights", "type": typ, "y": int(y), "m": int(m), "tz": idx["tz"]},
                    "out": {"res": "ok", "nd": len(kinds), "w2": w2, "colsOk": bool(cols_ok)}, "variant": rec.get("test", "").split(" ")[0]})
    return out


def nontrivial(cin, out):
    return cin["type"] != "single"
