"""C14 driver: build real model objects with one settings override and dump the resulting settings tree."""
from __future__ import annotations

import enum
import json
import re

_st = {}


def init():
    import opendsm.eemeter as em
    from opendsm.common.base_settings import BaseSettings
    _st["em"] = em
    _st["BaseSettings"] = BaseSettings
    # the pinned table, parsed from the committed TLA+ module (the driver needs the values to hand to the constructors)
    text = open("/verif/spec/SettingsTable.tla").read()
    rows = []
    pat = re.compile(r'\[tree \|-> "((?:[^"\\]|\\.)*)", path \|-> "((?:[^"\\]|\\.)*)", dev \|-> (TRUE|FALSE), def \|-> "((?:[^"\\]|\\.)*)", alt \|-> "((?:[^"\\]|\\.)*)", altdump \|-> "((?:[^"\\]|\\.)*)", bad \|-> "((?:[^"\\]|\\.)*)"\]')
    un = lambda s: s.replace('\\"', '"').replace("\\\\", "\\")
    for m in pat.finditer(text):
        rows.append({"tree": m.group(1), "path": m.group(2), "dev": m.group(3) == "TRUE", "def": un(m.group(4)), "alt": un(m.group(5)), "altdump": un(m.group(6)), "bad": un(m.group(7))})
    _st["fields"] = rows
    text = open("/verif/spec/SettingsDefs.tla").read()
    cross = []
    for m in re.finditer(r'\[tree \|-> "(\w+)", over \|-> "((?:[^"\\]|\\.)*)", expect \|-> "(\w+)"\]', text):
        cross.append({"tree": m.group(1), "over": un(m.group(2)), "expect": m.group(3)})
    _st["cross"] = cross


def _norm(v):
    """numbers are compared as numbers: 1, 1.0 and an int default of a float field are the same value"""
    if isinstance(v, enum.Enum):
        v = v.value
    if isinstance(v, bool) or v is None or isinstance(v, str):
        return v
    if isinstance(v, (int, float)):
        return repr(float(v))
    if isinstance(v, (list, tuple)):
        return [_norm(x) for x in v]
    if isinstance(v, dict):
        return {str(k): _norm(x) for k, x in v.items()}
    return str(v)


def canon(v):
    v = _norm(v)
    return json.dumps(v, sort_keys=True, default=lambda o: o.value if isinstance(o, enum.Enum) else str(o))


def leaves(obj, prefix=""):
    out = []
    B = _st["BaseSettings"]
    for name, field in type(obj).model_fields.items():
        if field.exclude:
            continue
        val = getattr(obj, name)
        if isinstance(val, B):
            out += leaves(val, prefix + name + ".")
        elif prefix + name not in ("developer_mode", "silent_developer_mode"):
            out.append([prefix + name, canon(val)])
    return out


def build(tree, settings):
    em = _st["em"]
    if tree == "current":
        return em.DailyModel(settings=settings)
    if tree == "legacy":
        return em.DailyModel(model="legacy", settings=settings)
    if tree == "billing":
        return em.BillingModel(settings=settings)
    if tree == "hourly":
        return em.HourlyModel(settings=settings)
    raise ValueError(tree)


def spell(key, how):
    return {"plain": key, "upper": key.upper(), "padded": "  " + key.capitalize() + " ", "lowerpad": " " + key + "  ", "tabnl": "\t" + key + "\n",
            "pathpad": " " + key + " ", "pathupper": key.upper()}[how]


def overrides(tree, path, value, spelling, form, devmode, silent=None):
    parts = path.split(".")
    kw = {spell(parts[-1], spelling): value}
    for p in reversed(parts[:-1]):
        kw = {(spell(p, spelling) if spelling.startswith("path") else p): kw}
    if form == "object" and len(parts) > 1:
        # nested settings given as an object of the tree's own nested class
        base = build(tree, None).settings
        nested_cls = type(getattr(base, parts[0]))
        kw = {parts[0]: nested_cls(**kw[parts[0]])}
    if silent is None:
        silent = devmode
    if devmode:
        kw["developer_mode"] = True
    if silent:
        kw["silent_developer_mode"] = True
    return kw


def realise(cin, variant):
    out = {"res": "accepted", "dump": [], "same": True, "nodev": "-"}
    try:
        if cin["kind"] == "default":
            m = build(cin["tree"], None)
            out["dump"] = leaves(m.settings)
            return out
        if cin["kind"] == "construct":
            f = _st["fields"][cin["fi"] - 1]
            assert f["tree"] == cin["tree"]
            raw = {"def": f["def"], "alt": f["alt"], "bad": f["bad"]}[cin["choice"]]
            value = json.loads(raw)
            try:
                kw = overrides(cin["tree"], f["path"], value, cin["spelling"], cin["form"], cin["devmode"], cin.get("silent"))
                m = build(cin["tree"], kw)
            except Exception as ex:
                out["res"] = "rejected"
                out["err"] = "%s: %s" % (type(ex).__name__, str(ex)[:160])
                return out
            out["dump"] = leaves(m.settings)
            return out
        if cin["kind"] == "cross":
            c = _st["cross"][cin["ci"] - 1]
            over = json.loads(c["over"])
            try:
                build(cin["tree"], dict(over, developer_mode=True, silent_developer_mode=True))
            except Exception as ex:
                out["res"] = "rejected"
                out["err"] = "%s: %s" % (type(ex).__name__, str(ex)[:160])
            try:
                build(cin["tree"], dict(over))
                out["nodev"] = "accepted"
            except Exception:
                out["nodev"] = "rejected"
            return out
        if cin["kind"] == "stored":
            import sys
            sys.path.insert(0, "/verif")
            from drivers import lifecat
            em = _st["em"]
            f = _st["fields"][cin["fi"] - 1]
            parts = f["path"].split(".")
            kw = {parts[-1]: json.loads(f["alt"])}
            for p in reversed(parts[:-1]):
                kw = {p: kw}
            if f["dev"]:
                kw.update(developer_mode=True, silent_developer_mode=True)
            fam = {"legacy": "daily", "billing": "billing", "hourly": "hourly"}[cin["tree"]]
            if fam == "hourly":
                kw["seed"] = 1
            supp = f["path"] == "supplemental_time_series_columns"
            if supp:            # columns that exist in the baseline frame, so that the fit really uses them
                kw["supplemental_time_series_columns"] = ["sup_c", "sup_a"]
                kw["train_features"] = ["temperature"]
            m = build(cin["tree"], kw)
            # the settings the model was BUILT with: taken before the fit (a fit must not edit them)
            built = json.loads(json.dumps(m.settings.model_dump(), default=lambda o: o.value if isinstance(o, enum.Enum) else str(o)))
            frame, dkw = lifecat.build(fam, "baseline", "good", supp=supp) if fam == "hourly" else lifecat.build(fam, "baseline", "good")
            cls = {"daily": em.DailyBaselineData, "billing": em.BillingBaselineData, "hourly": em.HourlyBaselineData}[fam]
            m.fit(cls(frame, **dkw), ignore_disqualification=True)
            stored = json.loads(m.to_json())["settings"]
            if built.get("train_features", 0) is None:
                # train_features left unset: the hourly fit resolves it from the columns of the baseline (documented: ghi present -> solar);
                # an explicitly given list must come back unchanged
                stored.pop("train_features", None)
                built.pop("train_features", None)
            if cin["tree"] == "billing":          # BillingModel.to_dict forces the flag so that the document reloads (named in C01's anchors)
                stored.pop("developer_mode", None)
                built.pop("developer_mode", None)
            out["same"] = bool(stored == built)
            if not out["same"]:
                out["diff"] = [k for k in set(stored) | set(built) if stored.get(k) != built.get(k)][:5]
            return out
    except Exception as ex:
        out["res"] = "error:" + type(ex).__name__
        out["err"] = str(ex)[:200]
        return out
    raise ValueError(cin["kind"])


def nontrivial(cin, out):
    return cin["kind"] != "construct" or cin["choice"] != "def"


def corruptions(cin, out):
    import copy
    if cin["kind"] in ("default", "construct") and out["res"] == "accepted" and out["dump"]:
        o = copy.deepcopy(out); o["dump"][3][1] = '"tampered"'; yield "dumpValue", o
        o = copy.deepcopy(out); o["dump"] = o["dump"][:-1]; yield "dumpMissing", o
        if cin["kind"] == "construct":
            o = copy.deepcopy(out); o["res"] = "rejected"; yield "rejected", o
    if cin["kind"] == "construct" and out["res"] == "rejected":
        o = copy.deepcopy(out); o["res"] = "accepted"; yield "accepted", o
    if cin["kind"] == "stored" and out["res"] == "accepted":
        o = copy.deepcopy(out); o["same"] = False; yield "stored", o
