"""C13 driver: candidate lists of the real DailyModel._combinations(), per-day routing of constructed split documents,
and the selection made by real fits."""
from __future__ import annotations

import numpy as np
import pandas as pd

from . import docs, lifecat

_st = {"models": {}, "preds": {}}
SEASON_NAME = {"su": "summer", "sh": "shoulder", "wi": "winter"}
MONTHS = ["january", "february", "march", "april", "may", "june", "july", "august", "september", "october", "november", "december"]
DAYS = ["monday", "tuesday", "wednesday", "thursday", "friday", "saturday", "sunday"]


def init():
    import opendsm.eemeter as em
    _st["em"] = em


def parse_combo(text):
    out = []
    for comp in text.split("__"):
        pre, seasons = comp[:2], comp[3:].split("_")
        out.append({"pre": pre, "seasons": seasons})
    return out


def _cands(cin):
    em = _st["em"]
    a = cin["allow"]
    settings = {"developer_mode": True, "silent_developer_mode": True,
                "split_selection": {"allow_separate_summer": a["su"], "allow_separate_shoulder": a["sh"], "allow_separate_winter": a["wi"],
                                    "allow_separate_weekday_weekend": a["wdwe"], "reduce_splits_by_gaussian": bool(cin["gauss"]),
                                    "reduce_splits_num_std": [1.4, 0.89] if cin["gauss"] else None}}
    m = em.DailyModel(settings=settings)
    rows = []
    rng = np.random.default_rng(7)
    for s in ("su", "sh", "wi"):
        n, nwe = cin["days"][s], cin["wedays"][s]
        dows = [6 + (k % 2) for k in range(nwe)] + [1 + (k % 5) for k in range(n - nwe)]
        base = {"su": 80.0, "sh": 60.0, "wi": 35.0}[s]
        for k, dow in enumerate(dows):
            T = base + rng.normal(0, 6)
            rows.append((SEASON_NAME[s], dow, T, 20 + 0.8 * abs(T - 60) + (4.0 if dow > 5 else 0.0) + rng.normal(0, 1)))
    idx = pd.date_range("2019-01-01", periods=max(1, len(rows)), freq="D", tz="America/Chicago")[: len(rows)]
    m.df_meter = pd.DataFrame(rows, columns=["season", "day_of_week", "temperature", "observed"], index=idx)
    cands = m._combinations()
    return {"res": "ok", "cands": [parse_combo(c) for c in cands]}


def _route_model(cin, zone="America/Chicago"):
    key = (str(cin["split"]), tuple(cin["smap"]), tuple(cin["wmap"]), zone)
    if key not in _st["models"]:
        subs = {}
        for k, comp in enumerate(cin["split"]):
            name = "%s-%s" % (comp["pre"], "_".join(comp["seasons"]))
            subs[name] = docs.submodel(docs.coeffs("tidd", 10 * (k + 1)))
        over = {"season": {MONTHS[i]: SEASON_NAME[cin["smap"][i]] for i in range(12)},
                "weekday_weekend": {DAYS[i]: {"wd": "weekday", "we": "weekend"}[cin["wmap"][i]] for i in range(7)}}
        if zone != "America/Chicago":
            # the same definitions with their `options` lists given in another order (the names are what they are, whatever their order)
            over["season"]["options"] = ["winter", "shoulder", "summer"]
            over["weekday_weekend"]["options"] = ["weekend", "weekday"]
        doc = docs.document(subs, tz=zone, profile="legacy", overrides=over)
        _st["models"][key] = (docs.load(doc), list(subs.keys()))
    return _st["models"][key]


def _route(cin, zone="America/Chicago"):
    em = _st["em"]
    model, names = _route_model(cin, zone)
    pkey = (id(model), cin["y"])
    if pkey not in _st["preds"]:
        idx = pd.date_range(pd.Timestamp("%d-01-01" % cin["y"], tz=zone), pd.Timestamp("%d-12-31" % cin["y"], tz=zone), freq="D")     # local midnights
        data = em.DailyReportingData(pd.DataFrame({"temperature": 50.0 + (np.arange(len(idx)) % 30), "observed": 10.0}, index=idx), is_electricity_data=False)
        # a decoy: ANOTHER model with other calendar maps is constructed between this model's construction and its use (the maps a
        # model routes with are its own, whatever else was built in the process since)
        em.DailyModel(model="legacy", settings={"weekday_weekend": {DAYS[i]: ("weekend" if i in (0, 1) else "weekday") for i in range(7)},
                                                 "season": {MONTHS[i]: ("summer" if i < 4 else "winter" if i < 8 else "shoulder") for i in range(12)}})
        _st["preds"][pkey] = model.predict(data, ignore_disqualification=True)
        if len(_st["preds"]) > 40:
            _st["preds"].pop(next(iter(_st["preds"])))
    res = _st["preds"][pkey]
    sel = res[(res.index.month == cin["m"])]
    routes = []
    for ts, row in sel.iterrows():
        sp = row["model_split"]
        k = names.index(sp) + 1 if sp in names else 0
        # the prediction itself must be that sub-model's constant
        if k and float(row["predicted"]) != 10.0 * k:
            k = -k
        routes.append(k)
    return {"res": "ok", "routes": routes}


def _dataset(name):
    if name in ("good", "other"):
        return lifecat.build("daily", "baseline", name)
    idx, T = lifecat.daily_weather("2019-01-01", 365, "America/Chicago", "sel" + name)
    rng = np.random.default_rng(11)
    we = np.isin(idx.dayofweek.to_numpy(), [5, 6])
    mon = idx.month.to_numpy()
    if name == "regimes":        # summer behaves unlike the rest of the year
        obs = np.where(np.isin(mon, [6, 7, 8, 9]), 60 + 3.0 * np.maximum(T - 60, 0), 15 + 0.5 * np.maximum(55 - T, 0)) + rng.normal(0, 1.0, 365)
    elif name == "weekend":      # closed at weekends
        obs = np.where(we, 8.0, 40 + 1.2 * np.maximum(T - 65, 0) + 0.8 * np.maximum(50 - T, 0)) + rng.normal(0, 1.0, 365)
    else:                        # flat
        obs = 25 + rng.normal(0, 1.0, 365)
    return pd.DataFrame({"temperature": T, "observed": obs}, index=idx), {"is_electricity_data": True}


def _select(cin):
    em = _st["em"]
    frame, kw = _dataset(cin["name"])
    b = em.DailyBaselineData(frame, **kw)
    m = em.DailyModel().fit(b, ignore_disqualification=True)
    combos = list(m.combinations)
    crit = [float(m._combination_selection_criteria(c)) for c in combos]
    order = sorted(set(crit))
    ranks = [order.index(c) + 1 for c in crit]
    best = combos.index(m.best_combination) + 1 if m.best_combination in combos else 0
    stored = sorted(m.to_dict()["submodels"].keys()) == sorted(m.best_combination.split("__"))
    return {"res": "ok", "cands": [parse_combo(c) for c in combos], "best": best, "ranks": ranks, "storedIsBest": bool(stored)}


def realise(cin, variant):
    try:
        if cin["kind"] == "route" and variant not in ("-", None, ""):
            return _route(cin, variant)          # variant = the zone of the reporting data (and of the document)
        return {"cands": _cands, "route": _route, "select": _select}[cin["kind"]](cin)
    except Exception as ex:
        import traceback
        return {"res": type(ex).__name__, "err": (str(ex) + traceback.format_exc())[:400], "cands": [], "routes": [], "best": 0, "ranks": [], "storedIsBest": True}


def nontrivial(cin, out):
    if cin["kind"] == "cands":
        return len(out.get("cands", [])) > 1
    if cin["kind"] == "route":
        return len(cin["split"]) > 1
    return True


def corruptions(cin, out):
    import copy
    if out["res"] != "ok":
        return
    if cin["kind"] in ("cands", "select") and out["cands"]:
        o = copy.deepcopy(out); o["cands"][-1] = o["cands"][-1] + [{"pre": "fw", "seasons": ["su"]}]; yield "overlap", o
        o = copy.deepcopy(out); o["cands"] = [c for c in o["cands"] if not (len(c) == 1 and c[0]["pre"] == "fw" and len(c[0]["seasons"]) == 3)]
        if o["cands"] != out["cands"]:
            yield "noUnsplit", o
    if cin["kind"] == "route" and out["routes"] and len(cin["split"]) > 1:
        o = copy.deepcopy(out); o["routes"][0] = o["routes"][0] % len(cin["split"]) + 1; yield "misroute", o
        o = copy.deepcopy(out); o["routes"] = o["routes"][:-1]; yield "dropDay", o
    if cin["kind"] == "select" and len(out["ranks"]) > 1:
        o = copy.deepcopy(out); o["ranks"][o["best"] - 1] = 2; yield "notLowest", o
