"""C10 driver: realise an abstract sufficiency case (span, missing-day offsets, class, role, fuel) as a frame or a pair of
series, construct the real data class and report the qualified names of its disqualifications and warnings."""
from __future__ import annotations

import numpy as np
import pandas as pd

VARIANTS = ["frame:America/Phoenix", "series:America/Phoenix", "frame:Asia/Kolkata", "frame:America/Chicago"]
_st = {}


def init():
    import opendsm.eemeter as em
    _st["em"] = em


def realise(cin, variant):
    em = _st["em"]
    entry, tz = variant.split(":")
    y, m, d = cin["start"]
    S = cin["span"]
    days = pd.date_range(pd.Timestamp(year=y, month=m, day=d, tz=tz), periods=S, freq="D")
    omiss = set(cin["omiss"])
    tmiss = set(cin["tmiss"])
    if tz == "America/Chicago":
        # whole-hour DST zone: day lengths are 23/25 h twice a year; int() truncation of the day counts makes the code's own
        # count differ by up to one day there, so exact-threshold cases are only realised in the two DST-free zones
        k = len(omiss | tmiss)
        crit = (S - 10) // 10
        if any(abs(x - crit) <= 1 for x in (len(omiss), len(tmiss), k)) :
            tz = "America/Phoenix"
            days = pd.date_range(pd.Timestamp(year=y, month=m, day=d, tz=tz), periods=S, freq="D")
    rng = np.random.default_rng(S * 1000 + len(omiss) * 10 + len(tmiss))
    doy = days.dayofyear.to_numpy()
    T = 55 + 25 * np.sin(2 * np.pi * (doy - 110) / 365.0) + rng.normal(0, 3, S)
    obs = 30 + 1.0 * np.maximum(50 - T, 0) + 1.4 * np.maximum(T - 65, 0) + rng.normal(0, 1, S)
    if cin["negatives"] and cin["cls"] == "billing":
        obs[(days.month == 4)] = -2.0          # a whole billing period with negative (net-metered) usage
    elif cin["negatives"]:
        free = [k for k in range(1, S - 1) if k not in omiss]
        obs[free[len(free) // 3]] = -5.0
        obs[free[len(free) // 2]] = -1.0
    out = {"res": "ok", "dq": [], "warn": [], "dqSeries": []}
    role, cls = cin["role"], cin["cls"]
    empty = cin.get("empty", "none")
    if empty == "usage":
        omiss = set(range(S))           # every usage value missing (the column is there)
    elif empty == "temp":
        tmiss = set(range(S))
    lead, trail = cin.get("lead", 0), cin.get("trail", 0)
    if lead or trail:
        # days outside the span: present in the frame, with temperature but without usage; both entry points are exercised
        entry = "both"
        days = pd.date_range((days[0].tz_localize(None) - pd.Timedelta(days=lead)).tz_localize(tz), periods=S + lead + trail, freq="D")   # local midnights
        T = np.concatenate([50.0 + rng.normal(0, 3, lead), T, 50.0 + rng.normal(0, 3, trail)])
        obs = np.concatenate([np.full(lead, np.nan), obs, np.full(trail, np.nan)])
        omiss = {k + lead for k in omiss}
        tmiss = {k + lead for k in tmiss}
        S = S + lead + trail
    try:
        if cls == "hourly":
            idx = pd.date_range(days[0], days[-1] + pd.Timedelta(hours=23), freq="h")
            dayno = ((idx.tz_localize(None) - days[0].tz_localize(None)) // pd.Timedelta(days=1)).to_numpy() if tz != "America/Chicago" else \
                np.searchsorted(days.asi8, idx.asi8, side="right") - 1
            Th = np.repeat(T, 24)[: len(idx)] if len(idx) == 24 * S else T[dayno]
            Th = Th + 6 * np.sin(2 * np.pi * (idx.hour.to_numpy() - 9) / 24.0)
            oh = (obs[dayno] / 24.0) * (1 + 0.3 * np.sin(2 * np.pi * (idx.hour.to_numpy() - 14) / 24.0))
            Th = Th.astype(float)
            oh = oh.astype(float)
            Th[np.isin(dayno, list(tmiss))] = np.nan
            oh[np.isin(dayno, list(omiss))] = np.nan
            frame = pd.DataFrame({"temperature": Th, "observed": oh}, index=idx)
            C = em.HourlyBaselineData if role == "baseline" else em.HourlyReportingData
            obj = C(frame, is_electricity_data=cin["electric"])
        else:
            Tm = T.copy()
            om = obs.copy()
            Tm[list(tmiss)] = np.nan
            om[list(omiss)] = np.nan
            fam = {"daily": ("DailyBaselineData", "DailyReportingData"), "billing": ("BillingBaselineData", "BillingReportingData")}[cls]
            C = getattr(em, fam[0] if role == "baseline" else fam[1])
            if entry == "both":
                meter = pd.Series(om, index=days, name="observed")
                temp = pd.Series(Tm, index=days, name="temperature")
                ser = C.from_series(meter, temp, is_electricity_data=cin["electric"])
                out["dqSeries"] = sorted(w.qualified_name for w in ser.disqualification)
                obj = C(pd.DataFrame({"temperature": Tm, "observed": om}, index=days), is_electricity_data=cin["electric"])
            elif entry == "series":
                meter = pd.Series(om, index=days, name="observed")
                temp = pd.Series(Tm, index=days, name="temperature")
                obj = C.from_series(meter, temp, is_electricity_data=cin["electric"])
            else:
                obj = C(pd.DataFrame({"temperature": Tm, "observed": om}, index=days), is_electricity_data=cin["electric"])
    except Exception as ex:
        out["res"] = type(ex).__name__
        out["err"] = str(ex)[:200]
        return out
    out["dq"] = sorted(w.qualified_name for w in obj.disqualification)
    out["warn"] = sorted(w.qualified_name for w in obj.warnings)
    if not (lead or trail):
        out["dqSeries"] = list(out["dq"])
    return out


def nontrivial(cin, out):
    return bool(out.get("dq")) or out["res"] != "ok"


def corruptions(cin, out):
    import copy
    if out["res"] != "ok":
        return
    if out["dq"]:
        o = copy.deepcopy(out); o["dq"] = o["dq"][1:]; yield "dropDq", o
    for name in ("eemeter.sufficiency_criteria.too_many_days_with_missing_temperature_data", "eemeter.sufficiency_criteria.incorrect_number_of_total_days"):
        if name not in out["dq"]:
            o = copy.deepcopy(out); o["dq"] = sorted(o["dq"] + [name]); yield "addDq", o
            break
    o = copy.deepcopy(out); o["dq"] = sorted(o["dq"] + ["eemeter.sufficiency_criteria.extreme_values_detected"]); yield "warningAsDq", o
    o = copy.deepcopy(out); o["res"] = "TypeError"; yield "raises", o
