"""C20 driver: realise an abstract Window call as a pandas object, call the real get_baseline_data /
get_reporting_data, and project the outcome onto the abstract timeline.  Measures only - the verdict is TLC's."""
from __future__ import annotations

import datetime as dt

import numpy as np
import pandas as pd

SHAPES = ["daily_series_utc", "hourly_frame_chicago", "billing_frame_utc", "daily_frame_kolkata", "daily_intframe_utc", "hourly_series_utc_limits_chicago"]      # limits_chicago: the requested end / start are written in another zone than the data (the same instants)      # intframe: whole-number readings in an integer column
_fn = {}


def init():
    from opendsm.eemeter.common.transform import get_baseline_data, get_reporting_data
    from opendsm.eemeter.common.exceptions import NoBaselineDataError, NoReportingDataError
    _fn.update(b=get_baseline_data, r=get_reporting_data, be=NoBaselineDataError, re=NoReportingDataError)


def _scale(shape):
    # (days per abstract unit, base instant in UTC, display tz, frame?)
    if shape == "daily_series_utc":
        return 1, pd.Timestamp("2019-03-01T00:00:00Z"), "UTC", False
    if shape == "daily_intframe_utc":
        return 1, pd.Timestamp("2019-06-01T00:00:00Z"), "UTC", True
    if shape == "hourly_series_utc_limits_chicago":
        return 1.0 / 6, pd.Timestamp("2019-07-01T00:00:00Z"), "UTC", False        # one abstract unit = 2 hours: less than the distance between the two zones
    if shape == "hourly_frame_chicago":
        return 1, pd.Timestamp("2019-03-08T19:00:00Z"), "America/Chicago", True      # the March clock change (10 March 08:00Z) falls 1.5 days after the base: inside even the quick timeline
    if shape == "billing_frame_utc":
        return 30, pd.Timestamp("2018-01-07T06:00:00Z"), "UTC", True
    if shape == "daily_frame_kolkata":
        return 2, pd.Timestamp("2020-02-20T18:30:00Z"), "Asia/Kolkata", True
    raise ValueError(shape)


def build(cin, shape):
    k, base, tz, frame = _scale(shape)
    half = pd.Timedelta(hours=12 * k)          # one abstract unit = half of k days
    stamps = [base + half * t for t in cin["idx"]]
    index = pd.DatetimeIndex(stamps).tz_convert(tz)
    vals = np.array([10.0 + 1.5 * j if v == "fin" else np.nan for j, v in enumerate(cin["vals"])])
    if shape == "daily_intframe_utc":
        # int64 when every reading is there, the nullable Int64 (pd.NA) otherwise
        ints = [10 + 3 * j if v == "fin" else None for j, v in enumerate(cin["vals"])]
        col = np.array(ints, dtype="int64") if all(x is not None for x in ints) else pd.array(ints, dtype="Int64")
        data = pd.DataFrame({"value": col, "other": vals * 2.0 + 1.0}, index=index)
    elif frame:
        data = pd.DataFrame({"value": vals, "other": vals * 2.0 + 1.0}, index=index)
    else:
        data = pd.Series(vals, index=index, name="value")
    kw = {}
    conv = (lambda t: (base + half * t).tz_convert(tz))
    if shape == "hourly_series_utc_limits_chicago":
        conv = (lambda t: (base + half * t).tz_convert("America/Chicago"))
    if shape == "billing_frame_utc":   # plain datetime limits as the repository's own tests use
        conv = (lambda t: (base + half * t).to_pydatetime())
    kw["end"] = conv(cin["endp"]) if cin["hasEnd"] else None
    kw["start"] = conv(cin["startp"]) if cin["hasStart"] else None
    kw["max_days"] = k * cin["maxd"] if cin["hasMax"] else None
    kw["allow_billing_period_overshoot"] = cin["overshoot"]
    kw["ignore_billing_period_gap_for_day_count"] = cin["ignoregap"]
    if cin["kind"] == "baseline":
        kw["n_days_billing_period_overshoot"] = k * cin["ndover"] if cin["hasNd"] else None
    return data, kw, (k, base)


def _same(a, b):
    if type(a) is not type(b) or not a.index.equals(b.index) or str(a.index.tz) != str(b.index.tz):
        return False
    av = a.to_numpy(dtype=float, na_value=np.nan)
    bv = b.to_numpy(dtype=float, na_value=np.nan)
    return av.shape == bv.shape and bool(np.all((av == bv) | (np.isnan(av) & np.isnan(bv))))


def realise(cin, shape):
    data, kw, (k, base) = build(cin, shape)
    keep = data.copy(deep=True)
    base_kind = cin["kind"] == "baseline"
    fn = _fn["b"] if base_kind else _fn["r"]
    dedicated = _fn["be"] if base_kind else _fn["re"]
    out = {"res": "ok", "oidx": [], "sameVals": True, "lastBlank": True, "inputSame": True, "warns": []}
    try:
        got = fn(data, **kw)
    except dedicated:
        out["res"] = "nodata"
        out["inputSame"] = _same(data, keep)
        return out
    except Exception as ex:
        out["res"] = type(ex).__name__
        out["inputSame"] = _same(data, keep)
        return out
    out["inputSame"] = _same(data, keep)
    if not (isinstance(got, tuple) and len(got) == 2):
        out["res"] = "BadReturnShape"
        return out
    sel, warns = got
    unit = pd.Timedelta(hours=12 * k)
    oidx = []
    for ts in sel.index:
        d = ts.tz_convert("UTC") - base
        oidx.append(int(d // unit) if d % unit == pd.Timedelta(0) else -999)     # -999: a timestamp that is not on the input grid
    out["oidx"] = oidx
    same = type(sel) is type(keep)
    if same and len(sel) > 0:
        body = sel.iloc[:-1]
        try:
            ref = keep.loc[body.index]
            same = _same(body, ref) if len(body) else True
        except KeyError:
            same = False
        if isinstance(sel, pd.DataFrame):
            same = same and list(sel.columns) == list(keep.columns)
        out["lastBlank"] = bool(np.all(np.isnan(sel.iloc[-1:].to_numpy(dtype=float, na_value=np.nan))))
    out["sameVals"] = bool(same)
    names = []
    for w in warns:
        q = w.qualified_name
        tag = {"eemeter.get_baseline_data.gap_at_baseline_end": "gap_end", "eemeter.get_baseline_data.gap_at_baseline_start": "gap_start",
               "eemeter.get_reporting_data.gap_at_reporting_end": "gap_end", "eemeter.get_reporting_data.gap_at_reporting_start": "gap_start"}
        if base_kind and "reporting" in q or (not base_kind and "baseline" in q):
            names.append(q)
        else:
            names.append(tag.get(q, q))
    out["warns"] = names
    return out


def nontrivial(cin, out):
    # a window that actually cuts something off, or an error outcome
    return out["res"] != "ok" or len(out["oidx"]) < len(cin["idx"])


def corruptions(cin, out):
    """Self-test: single-field corruptions of an accepted record that the P-layer must reject."""
    import copy
    if out["res"] == "ok":
        o = copy.deepcopy(out); o["lastBlank"] = False; yield "lastBlank", o
        o = copy.deepcopy(out); o["sameVals"] = False; yield "sameVals", o
        o = copy.deepcopy(out); o["inputSame"] = False; yield "inputSame", o
        o = copy.deepcopy(out); o["res"] = "KeyError"; yield "res", o
        if len(out["oidx"]) >= 2:
            o = copy.deepcopy(out); o["oidx"] = out["oidx"][1:] if cin["kind"] == "baseline" else out["oidx"][:-1]; yield "dropEdgeRow", o
            o = copy.deepcopy(out); o["oidx"] = [out["oidx"][0]] + out["oidx"][2:]; yield "hole", o
        extra = [t for t in cin["idx"] if t not in out["oidx"]]
        if extra:
            t = extra[0]
            o = copy.deepcopy(out); o["oidx"] = sorted(out["oidx"] + [t]); yield "extraRow", o
        if out["warns"]:
            o = copy.deepcopy(out); o["warns"] = []; yield "dropWarning", o
    elif out["res"] == "nodata":
        if any(v == "fin" for v in cin["vals"]) and not cin["hasEnd"] and not cin["hasStart"]:
            pass
        o = copy.deepcopy(out); o["inputSame"] = False; yield "inputSame", o
