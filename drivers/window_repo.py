"""C20, code -> spec on executions the harness did not script: the repository's own tests of the window functions
(tests/test_transform.py) are run with the guarded call-tracing hook on; every recorded public call of get_baseline_data /
get_reporting_data is converted - mechanically: timestamps to integer seconds, null masks, content hashes - to the
abstract `in` / `out` records of WindowDefs and judged by TLC (WindowTrace.tla) like any other recorded call.
The tests' own assertions check a handful of row counts; the trace specification checks every clause on every call."""
from __future__ import annotations

import glob
import json
import os
import shutil
import subprocess
import sys

DEDICATED = {"get_baseline_data": "NoBaselineDataError", "get_reporting_data": "NoReportingDataError"}
TESTS = ["tests/test_transform.py"]


def record(workdir):
    """Run the repository tests with the hook on; return the recorded calls (list of dicts) and the pytest summary line."""
    repo = os.environ.get("VERIF_REPO", "/repo")
    tdir = os.path.join(workdir, "repo_traces")
    shutil.rmtree(tdir, ignore_errors=True)
    os.makedirs(tdir)
    env = dict(os.environ)
    env.update({"OPENDSM_EEMETER_VERIF": "1", "OPENDSM_EEMETER_VERIF_TRACE": os.path.join(tdir, "calls"), "PYTHONPATH": repo,
                "PYTHONHASHSEED": "0"})
    cmd = ["/venv/bin/python", "-m", "pytest", "-q", "-p", "no:cacheprovider", "-o", "addopts=", "-n", "4", "--timeout=900", "-k", "baseline_data or reporting_data"] + TESTS
    p = subprocess.run(cmd, cwd=repo, env=env, stdout=subprocess.PIPE, stderr=subprocess.STDOUT, text=True)
    summary = [l for l in p.stdout.splitlines() if " passed" in l or " failed" in l or " error" in l]
    recs = []
    for f in sorted(glob.glob(os.path.join(tdir, "calls.*"))):
        for line in open(f):
            recs.append(json.loads(line))
    recs.sort(key=lambda r: (r.get("test", ""), r.get("seq", 0)))
    shutil.rmtree(tdir, ignore_errors=True)
    return recs, (summary[-1] if summary else p.stdout[-300:])


def convert(k, rec):
    """One recorded call -> {id, in, out, note} or {skip: reason}."""
    fn = rec["fn"]
    if fn not in DEDICATED:
        return {"skip": "not a window function"}
    pr = rec["params"]
    data = pr.get("data")
    if not isinstance(data, dict) or data.get("type") != "frame" or "index_ns" not in data:
        return {"skip": "input is not a frame with a datetime index"}
    idx_ns = data["index_ns"]
    if len(idx_ns) == 0 or any(b <= a for a, b in zip(idx_ns, idx_ns[1:])):
        return {"skip": "index empty, unsorted or with duplicates (outside the abstract input space)"}
    inst = {}
    for name in ("start", "end"):
        v = pr.get(name)
        if v is None:
            inst[name] = None
        elif isinstance(v, dict) and v.get("type") == "instant" and v.get("aware"):
            inst[name] = v["ns"]
        else:
            return {"skip": "%s is not a timezone-aware instant" % name}
    allns = idx_ns + [v for v in inst.values() if v is not None]
    if any(v % 10 ** 9 for v in allns):
        return {"skip": "sub-second timestamps"}
    base = min(allns) - 10 ** 9
    sec = lambda ns: (ns - base) // 10 ** 9
    if sec(max(allns)) + 86400 * 800 >= 2 ** 31:
        return {"skip": "span exceeds TLC's 32-bit integers at one-second resolution"}
    maxd = pr.get("max_days")
    nd = pr.get("n_days_billing_period_overshoot")
    if (maxd is not None and not isinstance(maxd, int)) or (nd is not None and not isinstance(nd, int)):
        return {"skip": "fractional day counts"}
    cin = {"kind": "baseline" if fn == "get_baseline_data" else "reporting", "u": 86400,
           "idx": [sec(v) for v in idx_ns], "vals": ["nan" if b else "fin" for b in data["row_has_null"]],
           "hasEnd": inst["end"] is not None, "endp": sec(inst["end"]) if inst["end"] is not None else 0,
           "hasStart": inst["start"] is not None, "startp": sec(inst["start"]) if inst["start"] is not None else 0,
           "hasMax": maxd is not None, "maxd": maxd or 0,
           "overshoot": bool(pr.get("allow_billing_period_overshoot")), "ignoregap": bool(pr.get("ignore_billing_period_gap_for_day_count")),
           "hasNd": nd is not None, "ndover": nd or 0}
    out = {"res": "ok", "oidx": [], "sameVals": True, "lastBlank": True, "warns": [],
           "inputSame": rec.get("hash_after", {}).get("data") == data["hash"]}
    if rec["out"] != "ok":
        out["res"] = "nodata" if rec["out"] == DEDICATED[fn] else rec["out"]
    else:
        res = rec.get("result")
        if not (isinstance(res, list) and len(res) == 2 and isinstance(res[0], dict) and res[0].get("type") == "frame"):
            out["res"] = "BadReturnShape"
        else:
            sel, warns = res
            on_grid = set(idx_ns)
            out["oidx"] = [sec(v) if v in on_grid else -999 for v in sel["index_ns"]]
            pos = {v: i for i, v in enumerate(idx_ns)}
            body_same = sel["columns"] == data["columns"]
            for j, v in enumerate(sel["index_ns"][:-1]):
                if v not in pos or sel["row_hash"][j] != data["row_hash"][pos[v]]:
                    body_same = False
                    break
            out["sameVals"] = bool(body_same)
            out["lastBlank"] = bool(sel["row_all_null"][-1]) if sel["rows"] else True
            for w in warns if isinstance(warns, list) else []:
                name = w.get("name", "") if isinstance(w, dict) else ""
                if name.endswith("_end"):
                    out["warns"].append("gap_end")
                elif name.endswith("_start"):
                    out["warns"].append("gap_start")
    return {"id": k, "in": cin, "out": out, "variant": rec.get("test", "").split(" ")[0]}


def nontrivial(cin, out):
    return out["res"] != "ok" or len(out["oidx"]) < len(cin["idx"])
