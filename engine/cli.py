"""./check <property> [--tier quick|thorough] [--replay <file>] [--selftest]
exit 0: property held on everything explored; exit 1: VIOLATION line(s) printed; exit 2: machinery failure."""
from __future__ import annotations

import argparse
import json
import os
import sys
import traceback

sys.path.insert(0, os.path.dirname(os.path.dirname(os.path.abspath(__file__))))
from engine import common, tlc  # noqa: E402


def main():
    ap = argparse.ArgumentParser()
    ap.add_argument("prop")
    ap.add_argument("--tier", default=os.environ.get("VERIF_TIER", "quick"), choices=["quick", "thorough"])
    ap.add_argument("--replay")
    ap.add_argument("--selftest", action="store_true")
    a = ap.parse_args()
    common.setup_env()
    from engine import registry
    try:
        entry = registry.get(a.prop)
        if a.selftest:
            rc = entry.selftest()
        elif a.replay:
            payload = json.load(open(a.replay))
            rc = entry.replay(payload)
        else:
            rc = entry.run(a.tier)
    except tlc.TLCError as ex:
        print("MACHINERY-FAILURE property=%s %s" % (a.prop, ex))
        rc = 2
    except Exception:
        print("MACHINERY-FAILURE property=%s\n%s" % (a.prop, traceback.format_exc()))
        rc = 2
    sys.exit(rc)


if __name__ == "__main__":
    main()
