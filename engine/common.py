"""Shared helpers: environment, seeding, hashing, findings, evidence."""
from __future__ import annotations

import hashlib
import json
import os
import random
import sys
import time

VERIF = os.path.dirname(os.path.dirname(os.path.abspath(__file__)))
WORK = os.path.join(VERIF, ".work")
EVID = os.path.join(VERIF, "evidence")
REPLAY = os.path.join(WORK, "replay")
FINDINGS = os.path.join(VERIF, "known_findings.json")
GUARD = "OPENDSM_EEMETER_VERIF"


def seed() -> int:
    try:
        return int(os.environ.get("VERIF_SEED", "0"))
    except ValueError:
        return 0


def rng(*salt) -> random.Random:
    h = hashlib.sha256(("%d|" % seed() + "|".join(map(str, salt))).encode()).digest()
    return random.Random(int.from_bytes(h[:8], "big"))


def setup_env():
    """Environment every driver process runs under (deterministic, hooks on, private numba cache)."""
    os.environ.setdefault("PYTHONHASHSEED", "0")
    os.environ[GUARD] = "1"
    os.environ.setdefault("NUMBA_CACHE_DIR", os.path.join(WORK, "numba_cache"))
    os.makedirs(os.environ["NUMBA_CACHE_DIR"], exist_ok=True)
    os.makedirs(REPLAY, exist_ok=True)
    os.makedirs(EVID, exist_ok=True)
    repo = os.environ.get("VERIF_REPO", "/repo")      # /repo's working tree unless a scratch copy is named (tools/try_seeded_wt.sh)
    if repo not in sys.path:
        sys.path.insert(0, repo)


def quiet():
    import logging
    import warnings
    warnings.simplefilter("ignore")
    logging.disable(logging.CRITICAL)


class Findings:
    """known_findings.json: committed, read-only at run time.
    entry = {"property": "C20", "clause": "DedicatedErrorOrResult", "match": {"in.kind": "baseline", ...},
             "what": "...", "status": "open"}   (status "fixed" entries suppress nothing)"""

    def __init__(self):
        self.entries = []
        if os.path.exists(FINDINGS):
            self.entries = json.load(open(FINDINGS)).get("findings", [])
        self.hits = {}

    @staticmethod
    def _get(case, path):
        cur = case
        for part in path.split("."):
            if isinstance(cur, dict) and part in cur:
                cur = cur[part]
            else:
                return None
        return cur

    def match(self, prop: str, clause: str, case: dict):
        for k, e in enumerate(self.entries):
            if e.get("status", "open") != "open" or e["property"] != prop:
                continue
            if e.get("clause") not in (None, "*", clause):
                continue
            ok = True
            for path, want in e.get("match", {}).items():
                got = self._get(case, path)
                if isinstance(want, list):
                    ok = got in want
                else:
                    ok = got == want
                if not ok:
                    break
            if ok:
                self.hits[k] = self.hits.get(k, 0) + 1
                return e
        return None

    def report(self):
        for k, n in sorted(self.hits.items()):
            e = self.entries[k]
            print("KNOWN-FINDING: property=%s clause=%s %s (matched %d recorded steps)" % (e["property"], e.get("clause"), e["what"], n))


def write_evidence(prop, tier, coverage, wall, violations, assumptions):
    os.makedirs(EVID, exist_ok=True)
    doc = {"property_id": prop, "tier": tier, "seed": seed(), "level": "model_checking", "coverage": coverage,
           "assumptions": assumptions, "wall_s": round(wall, 2), "violations": violations}
    tmp = os.path.join(EVID, prop + ".json.tmp")
    with open(tmp, "w") as f:
        json.dump(doc, f, indent=1, sort_keys=True, default=str)
    os.replace(tmp, os.path.join(EVID, prop + ".json"))


def write_replay(prop, n, payload) -> str:
    os.makedirs(REPLAY, exist_ok=True)
    path = os.path.join(REPLAY, "%s_%03d.json" % (prop, n))
    with open(path, "w") as f:
        json.dump(payload, f, indent=1, default=str)
    return path


class Timer:
    def __init__(self):
        self.t0 = time.time()

    def __call__(self):
        return time.time() - self.t0
