"""Lifecycle checks (C01..C05): TLC enumerates histories of Lifecycle.tla for a scenario configuration, the driver replays
them on the real library, LifecycleTrace.tla validates the recorded executions."""
from __future__ import annotations

import json
import multiprocessing as mp
import os
from collections import Counter

from . import common, tlaval, tlc

# clause -> properties that own it (a rejection counts for the running property only if it owns the clause)
OWN = {
    "FitReturnsOrDataSufficiencyError": {"C04"},
    "PredictGate": {"C04"},
    "PredictGateUnderObservedVariant": {"C04", "C05"},
    "ModelCarriesDataAndPoorFitDq": {"C04", "C16"},
    "ModelKeepsBaselineTimezone": {"C04", "C01"},
    "LoadKeepsDisqualifications": {"C04", "C01"},
    "LoadSucceeds": {"C01"}, "ReserialisesToSameDocument": {"C01"}, "LoadKeepsTimezone": {"C01"}, "LoadKeepsWarnings": {"C01"},
    "SaveSucceeds": {"C01"}, "SaveIsToJson": {"C01"}, "FitProducesSerialisableModel": {"C01"},
    "PredSameAfterReload": {"C01"}, "DocSameAfterReload": {"C01"}, "FitJsonSameAfterReload": {"C01"},
    "PredictPure": {"C02"}, "FitLeavesDataAlone": {"C02"}, "FitLeavesOtherModelsAlone": {"C02"}, "HandedOutFramesAreCopies": {"C02"},
    "CallerFramesUntouched": {"C02"}, "MakeLeavesOthersAlone": {"C02"}, "NewLeavesOthersAlone": {"C02"}, "LoadLeavesOthersAlone": {"C02"},
    "SavePure": {"C02"}, "StartLeavesOthersAlone": {"C02"}, "PredSameAcrossHistory": {"C02"}, "DocSameAcrossHistory": {"C02"},
    "FitJsonSameAcrossHistory": {"C02", "C03"},
    "FitJsonSameAcrossFits": {"C03"}, "PredSameAcrossFits": {"C03", "C02"},        # also C02's: a model object that predicts otherwise than a fresh object fitted on the same data carries state from its earlier use "DocSameAcrossFits": {"C03"},
    "PredSameAcrossObservedVariants": {"C05"}, "FitJsonSameAcrossObservedVariants": {"C05"}, "DocSameAcrossObservedVariants": {"C05"},
    "OneRowPerInputTimestamp": {"C06"},
    "DataObjectConstructed": {"C10", "C04"},
}

REPORTS_GATE = ["r:wmonth:orig", "r:weast:orig", "x:wmonth", "y:wmonth", "r:wday:orig"]      # r:wday: a single day in a month the short baseline never saw
REPORTS_SPAN = ["r:wyear:orig", "r:wpart:orig", "r:wmonth:orig", "r:wweek:orig", "r:wday:orig", "r:wweek:absent"]
REPORTS_OBS = ["r:wyear:orig", "r:wyear:x3", "r:wyear:shuffled", "r:wyear:partnan", "r:wyear:partzero", "r:wyear:allnan", "r:wyear:absent",
               "r:wpart:orig", "r:wpart:absent", "r:wpart:partnan", "r:wpart:partzero",
               "r:wlong:orig", "r:wlong:partnan", "r:wlong:absent",       # 600 days (daily meter with an hourly feed): a day blanked in one year is metered in the other
               "r:wdup:orig", "r:wdup:allnan", "r:wdup:absent", "r:wdup:partnan",        # duplicated timestamps: which row is kept must not depend on usage
               "r:wgap:orig", "r:wgap:allnan", "r:wgap:absent", "r:wgap:x3"]        # a weather feed with gaps: the fill must not look at usage

SCENARIOS = {
    # name: template, baselines, reports, slots, ignore flags
    "gate": dict(template="T_gate", base=["b:good", "b:short", "b:poor", "b:netpoor"], reports=REPORTS_GATE, slots=["s1", "s2"], ign=[True, False]),
    "gate2": dict(template="T_gate", base=["b:gaps", "b:east", "b:poor", "b:long", "b:neggas", "b:summerzero"], reports=REPORTS_GATE, slots=["s1", "s2"], ign=[True, False]),
    "refit": dict(template="T_refit", base=["b:good", "b:short", "b:poor"], reports=["r:wmonth:orig", "r:weast:orig"], slots=["s1"], ign=[True, False]),
    "store": dict(template="T_store", base=["b:good", "b:poor", "b:short", "b:allheat"], reports=["r:wyear:orig", "r:wweek:orig", "r:wpart:absent"], slots=["s1", "s2"], ign=[True]),
    "store2": dict(template="T_store2", base=["b:good", "b:other"], reports=["r:wweek:orig"], slots=["s1", "s2"], ign=[True]),
    "pure": dict(template="T_pure", base=["b:good", "b:short"], reports=REPORTS_SPAN, slots=["s1"], ign=[True]),
    "inter": dict(template="T_inter", base=["b:good", "b:other"], reports=["r:wyear:orig", "r:wweek:orig"], slots=["s1", "s2"], ign=[False]),
    "obs": dict(template="T_obs", base=["b:good"], reports=REPORTS_OBS, slots=["s1"], ign=[False]),
    "warm": dict(template="T_warm", base=["b:good", "b:other"], reports=["r:wmonth:orig"], slots=["s1", "s2"], ign=[False]),
}
# free-form histories: every operation allowed at every position (template T_free), explored by TLC's random simulation
SCENARIOS["free"] = dict(template="T_free", base=["b:good", "b:short", "b:poor"], reports=["r:wmonth:orig", "r:weast:orig", "r:wweek:absent", "x:wmonth"],
                         slots=["s1", "s2"], ign=[True, False], simulate=True)
SIM_NUM = {"n": 300}          # behaviours per simulated scenario instance (set per tier by run_property)
FAMILIES = {
    "quick": [("daily", "legacy"), ("billing", "billing"), ("hourly", "default")],
    "thorough": [("daily", "legacy"), ("billing", "billing"), ("hourly", "default"), ("daily", "current"), ("daily", "custommaps"),
                 ("daily", "devmode"), ("hourly", "robust"), ("hourly", "dictseed"), ("hourly", "solar"), ("hourly", "solar_tf"),
                 ("hourly", "solar_dict"), ("hourly", "supp"), ("hourly", "mincluster"), ("caltrack", "caltrack")],
}


def cfg_text(scen, fam, prof, aggs):
    s = SCENARIOS[scen]
    q = lambda xs: "{" + ", ".join('"%s"' % x for x in xs) + "}"
    lines = ["SPECIFICATION Spec", "CONSTANTS",
             "  Slots = %s" % q(s["slots"]),
             "  DataIds = %s" % q(s["base"] + s["reports"]),
             "  Cat <- CatAll", '  Fam = "%s"' % fam, "  Profs = %s" % q([prof]), "  Seeds = %s" % ("{0, 1}" if scen == "warm" and fam == "hourly" else "{1}"),
             "  Template <- %s" % s["template"],
             "  IgnSet = {%s}" % ", ".join("TRUE" if x else "FALSE" for x in s["ign"]),
             "  AggSet = %s" % q(aggs)]
    for inv in ("GateClosed", "GateClosedSweep", "GateFailClosed", "FitRaisesExactlyWhenDisqualified", "GateSurvivesStorage", "Deterministic"):
        lines.append("INVARIANT " + inv)
    for pr in ("PredictPure", "OnlySlotChanges", "StoreAppendOnly"):
        lines.append("PROPERTY " + pr)
    return "\n".join(lines) + "\n"


def simulate_histories(scen, fam, prof, num, depth=12):
    """Random behaviours of the scenario (tlc -simulate, seeded): one history per behaviour; the invariants are checked along them."""
    import glob
    import re
    import shutil
    aggs = ["None"]
    tag = "life_%s_%s_%s" % (scen, fam, prof)
    cfg = "gen_%s.cfg" % tag
    text = "\n".join(l for l in cfg_text(scen, fam, prof, aggs).splitlines() if not l.startswith("PROPERTY")) + "\n"
    with open(os.path.join(tlc.SPEC, cfg), "w") as f:
        f.write(text)
    wd = tlc.workdir(tag)
    simdir = os.path.join(wd, "sim")
    shutil.rmtree(simdir, ignore_errors=True)
    os.makedirs(simdir)
    seed = common.rng("simulate", scen, fam, prof).randrange(1, 2 ** 31)
    try:
        res = tlc.run("LifeMC", cfg, tag, workers=1, simulate="file=%s/tr,num=%d" % (simdir, num), depth=depth, seed=seed)
    finally:
        os.remove(os.path.join(tlc.SPEC, cfg))
    if res.violations:
        raise tlc.TLCError("Lifecycle theorems violated in a simulated behaviour of %s/%s: %s" % (scen, fam, res.violations[:3]))
    hists = {}
    nstates = 0
    for path in sorted(glob.glob(os.path.join(simdir, "tr_*"))):
        blocks = re.split(r"^STATE_\d+ ==\s*$", open(path).read(), flags=re.M)
        nstates += len(blocks) - 1
        last = blocks[-1].split("\n\n")[0].split("=====")[0]
        h = tlaval.to_json(tlaval.parse_state(last)["hist"])
        hists[json.dumps(h, sort_keys=True)] = h
    if not hists:
        raise tlc.TLCError("tlc -simulate produced no behaviour for %s/%s (see %s/tlc.out)" % (scen, fam, wd))
    m = re.search(r"The number of states generated: (\d+)", res.out)
    gen = int(m.group(1)) if m else nstates
    ops = Counter(a["op"] for h in hists.values() for a in h)
    stats = {"states": gen, "transitions": gen, "depth": depth, "wall": res.wall, "coverage": {k: [v, v] for k, v in ops.items()},
             "histories": len(hists), "aggs": aggs, "simulated": True, "seed": seed}
    return [hists[k] for k in sorted(hists)], stats


def _aggs_of(scen, fam):
    aggs = ["None", "monthly"] if fam == "billing" and scen in ("store",) else ["None"]
    if fam == "billing" and scen == "gate":
        aggs = ["None", "weekly"]
    return aggs


def enum_key(scen, fam, prof):
    r"""Instances of the bounded model that differ only in the family / profile NAME enumerate the same histories: the model
    depends on the family through `Fam \in GatedFams`, the aggregation set and the seed set only."""
    return (scen, fam in ("daily", "billing", "hourly"), tuple(_aggs_of(scen, fam)), scen == "warm" and fam == "hourly")


def rename_histories(hists, fam, prof):
    out = []
    for h in hists:
        out.append([dict(a, fam=fam, prof=prof) if a.get("op") == "new" else a for a in h])
    return out


def enumerate_histories(scen, fam, prof):
    """Run TLC on the scenario; return (maximal histories, TLC stats)."""
    if SCENARIOS[scen].get("simulate"):
        return simulate_histories(scen, fam, prof, SIM_NUM["n"])
    aggs = _aggs_of(scen, fam)
    tag = "life_%s_%s_%s" % (scen, fam, prof)
    cfg = "gen_%s.cfg" % tag
    with open(os.path.join(tlc.SPEC, cfg), "w") as f:
        f.write(cfg_text(scen, fam, prof, aggs))
    try:
        res = tlc.run("LifeMC", cfg, tag, dump=True, coverage=True, workers=4)
    finally:
        os.remove(os.path.join(tlc.SPEC, cfg))
    if res.violations:
        raise tlc.TLCError("Lifecycle theorems violated in scenario %s/%s: %s" % (scen, fam, res.violations[:3]))
    hists = []
    for st in tlc.dump_states(res):
        hists.append(tlaval.to_json(st["hist"]))
    keyed = {json.dumps(h, sort_keys=True): h for h in hists}
    prefixes = set()
    for h in hists:
        for k in range(len(h)):
            prefixes.add(json.dumps(h[:k], sort_keys=True))
    maximal = [h for k, h in sorted(keyed.items()) if k not in prefixes]
    ops_allowed = set()
    # vacuity: every operation the template allows must have been taken
    taken = {a for a, (d, t) in res.coverage.items() if t > 0}
    stats = {"states": res.distinct, "transitions": res.generated, "depth": res.depth, "wall": res.wall,
             "coverage": {a: list(v) for a, v in res.coverage.items()}, "histories": len(maximal), "aggs": aggs}
    return maximal, stats


def features(h):
    """what a history exercises: (fitted baseline x predicted report) pairs, operation kinds, consecutive predict pairs"""
    f = set()
    fitted = {}
    lastp = None
    scribbled = None    # data whose returned prediction frame the caller has overwritten
    shortp = {}         # slot -> the short report (a day, a week) it has predicted: not every hour of the week / month of the year occurs in it
    refit = {}          # slot -> (baseline of the earlier fit, had the model predicted before the refit)
    predicted = set()
    docs = []           # baseline behind every stored document
    loads = []          # (slot, baseline of the document) in load order
    restored = {}       # slot -> baseline of the document it was restored from
    for a in h:
        op = a["op"]
        f.add(("op", op))
        if op == "scribble":
            scribbled = lastp
        if op == "save":
            docs.append(fitted.get(a["s"], "-"))
        elif op == "restart":
            loads = []
        elif op == "load" and 1 <= a.get("docix", 0) <= len(docs):
            loads.append((a["s"], docs[a["docix"] - 1]))
            restored[a["s"]] = docs[a["docix"] - 1]
            f.add(("loaded-together", len({d for _, d in loads})))
        if op in ("sweep", "predict") and a["s"] in restored:
            f.add(("restored-model-used", restored[a["s"]]))         # per baseline: every stored model is also USED after it was read back
        if op == "fit":
            restored.pop(a["s"], None)
        if op in ("sweep", "predict") and loads:
            # a restored model is used after ANOTHER stored model was restored in the same process
            mine = [k for k, (sl, _) in enumerate(loads) if sl == a["s"]]
            if mine and any(k > mine[-1] and d != loads[mine[-1]][1] for k, (_, d) in enumerate(loads)):
                f.add(("used-after-another-model-was-restored", op))
        if op == "fit":
            if a["s"] in fitted and fitted[a["s"]] != a["d"]:
                # the same model OBJECT is fitted again on other data (after it has been used to predict, or not)
                refit[a["s"]] = (fitted[a["s"]], a["s"] in predicted)
                f.add(("refit-on-other-data", a["s"] in predicted))
            fitted[a["s"]] = a["d"]
            f.add(("fit", a["d"], a["ign"]))
        elif op == "predict":
            f.add(("predict", fitted.get(a["s"], "-"), a["d"]))
            if shortp.get(a["s"]) and a["d"] not in ("r:wday:orig", "r:wweek:orig", "r:wweek:absent"):
                f.add(("longer-report-predicted-after-a-single-day-or-week", shortp[a["s"]]))
            if a["d"] in ("r:wday:orig", "r:wweek:orig", "r:wweek:absent"):
                shortp[a["s"]] = a["d"].split(":")[1]
            if a["s"] in refit:
                f.add(("predict-after-the-model-object-was-refitted", refit[a["s"]][1]))
            predicted.add(a["s"])
            if a["d"] == fitted.get(a["s"]):
                f.add(("predict-on-the-fitted-baseline-object", a["d"]))
            if scribbled is not None and scribbled == a["d"]:
                f.add(("same-data-predicted-again-after-the-returned-frame-was-overwritten", a["d"][:2], a["d"] == fitted.get(a["s"])))
            if lastp is not None:
                f.add(("seq", lastp, a["d"]))
            lastp = a["d"]
        elif op == "sweep":
            f.add(("sweep", fitted.get(a["s"], "-")))
        elif op == "load":
            fitted[a["s"]] = "loaded"
    return f


# features that only a particular sequence of calls exercises: they outweigh the many (baseline x report) pair features
RARE = {"same-data-predicted-again-after-the-returned-frame-was-overwritten", "used-after-another-model-was-restored", "predict-on-the-fitted-baseline-object",
        "refit-on-other-data", "predict-after-the-model-object-was-refitted", "longer-report-predicted-after-a-single-day-or-week", "restored-model-used"}
RARE_WEIGHT = 25


def pick_cover(hists, n, r):
    """n histories chosen greedily to cover as many distinct features as possible (ties broken by the seeded rng)"""
    if n >= len(hists):
        return list(hists)
    pool = list(hists)
    r.shuffle(pool)
    feats = [features(h) for h in pool]
    covered = set()
    chosen = []
    used = set()
    for _ in range(n):
        best, gain = None, -1
        for k, f in enumerate(feats):
            if k in used:
                continue
            g = sum(RARE_WEIGHT if x[0] in RARE else 1 for x in f - covered)
            if g > gain:
                best, gain = k, g
        used.add(best)
        covered |= feats[best]
        chosen.append(pool[best])
    return chosen


def reference_histories(chosen):
    """For every chosen history in which a model object is fitted AGAIN on other data and then used, the same use by a FRESH object:
    new; fit (the last baseline); the same predicts / sweep.  The interpretation map then holds a second sighting of every
    prediction made after the refit, so that `what a refitted object predicts is what a fresh object predicts` is decided
    within the run (the P-layer's Core(m, d) does not depend on what the object was fitted on before)."""
    out, seen = [], set()
    for h in chosen:
        # ... and for every chosen history in which unrelated prior work (Other) precedes a fit, the same history WITHOUT that work:
        # the cold counterpart, so that `regardless of what the library was used for beforehand` is decided on the same meter, seed and slot
        ops = [a["op"] for a in h]
        if "other" in ops and "fit" in ops and ops.index("other") < len(ops) - 1 - ops[::-1].index("fit"):
            cold = [dict(a) for a in h if a["op"] != "other"]
            key = json.dumps(cold, sort_keys=True)
            if key not in seen:
                seen.add(key)
                out.append(cold)
        news, fitted, refitted, uses = {}, {}, {}, {}
        for a in h:
            if a["op"] == "new":
                news[a["s"]] = a
            elif a["op"] == "fit":
                if a["s"] in fitted and fitted[a["s"]]["d"] != a["d"]:
                    refitted[a["s"]] = True
                    uses[a["s"]] = []
                fitted[a["s"]] = a
            elif a["op"] in ("predict", "sweep") and refitted.get(a["s"]):
                uses[a["s"]].append(a)
            elif a["op"] in ("load", "restart"):
                refitted.pop(a.get("s"), None) if a["op"] == "load" else refitted.clear()
        for sl, us in uses.items():
            if not us or sl not in news:
                continue
            ref = [dict(news[sl]), dict(fitted[sl])] + [dict(u) for u in us]
            key = json.dumps(ref, sort_keys=True)
            if key not in seen:
                seen.add(key)
                out.append(ref)
    return out


def expand(hist, scen, fam, aggs, salt, remote_restart, prof=""):
    """Abstract history -> executable script: lazy `make`, sweeps unfolded in a seeded order, restarts as fresh worlds."""
    s = SCENARIOS[scen]
    r = common.rng("expand", salt)
    out = []
    made = set()
    epoch = 0

    def need(did):
        if did in made:
            return
        made.add(did)
        parts = did.split(":")
        if parts[0] == "b":
            out.append({"op": "make", "d": did, "fam": fam, "kind": "baseline", "name": parts[1], "ghi": solar, "supp": supp, "entry": r.choice(["frame", "series", "dtcol"]) if fam in ("daily", "billing") else r.choice(["frame", "dtcol"]) if fam == "hourly" else "frame"})
        elif parts[0] == "r":
            out.append({"op": "make", "d": did, "fam": fam, "kind": "reporting", "name": parts[1], "obs": parts[2], "ghi": solar, "supp": supp,
                        "entry": "series_hfeed" if (parts[1] == "wlong" and fam == "daily") else (r.choice(["frame", "frame", "dtcol", "series_utc"]) if fam in ("daily", "billing") else r.choice(["frame", "frame", "dtcol"])) if fam != "caltrack" else "frame"})
        elif parts[0] == "y":           # the sibling family's data class (shares a base class with the right one)
            other = {"daily": "billing", "billing": "daily", "hourly": "caltrack", "caltrack": "hourly"}[fam]
            out.append({"op": "make", "d": did, "fam": other, "kind": "reporting", "name": parts[1], "obs": "orig"})
        else:
            other = "hourly" if fam in ("daily", "billing") else "daily"
            out.append({"op": "make", "d": did, "fam": other, "kind": "reporting", "name": parts[1], "obs": "orig"})

    solar = fam == "hourly" and prof.startswith("solar")
    supp = fam == "hourly" and prof == "supp"
    for a in hist:
        a = dict(a)
        op = a["op"]
        if op == "restart":
            epoch += 1
            made.clear()
            out.append({"op": "start", "p": "p1", "cold": bool(remote_restart)})
            continue
        if op == "sweep":
            combos = [(d, ign, agg) for d in s["reports"] for ign in s["ign"] for agg in aggs]
            r.shuffle(combos)
            for d, ign, agg in combos:
                need(d)
                out.append({"op": "predict", "s": a["s"], "d": d, "ign": ign, "agg": agg})
            continue
        if "d" in a:
            need(a["d"])
        if op == "predict":
            a.setdefault("agg", "None")
        if op == "other":
            a["fam"] = fam
        if op == "new" and scen != "warm":
            # a decoy: right after a model object is constructed, OTHER settings and model objects (other calendar maps, uncertainty
            # level, supplemental columns) are built and thrown away - what a model does later is governed by its own settings
            out.append(a)
            out.append({"op": "other", "k": "settings"})
            continue
        if op == "load" and fam in ("daily", "billing"):
            # daily / billing: C01 demands the prediction that the documented formula gives "from the JSON parameters alone" - parameters are
            # named members, and a JSON object is unordered: the document may come back with its members in another order (a key-sorting
            # serialiser, a jsonb column).  The hourly reader takes the feature scaler's entries by position (a reordered document of a solar
            # model predicts other values); the statement does not reach that far, so hourly / CalTRACK documents are read as written.
            a["form"] = r.choice(["written", "written", "sorted", "reversed"])
        out.append(a)
    return out


def _run_job(job):
    common.setup_env()
    common.quiet()
    from drivers import lifecycle
    import sys
    try:
        sys.stdout.flush()
        keep = os.dup(1)
        dn = os.open(os.devnull, os.O_WRONLY)
        os.dup2(dn, 1)              # the library print()s now and then
        try:
            return lifecycle.run_history(job)
        finally:
            sys.stdout.flush()
            os.dup2(keep, 1)
            os.close(keep)
            os.close(dn)
    except Exception as ex:
        import traceback
        return {"tid": job["tid"], "machinery_error": "%s: %s\n%s" % (type(ex).__name__, ex, traceback.format_exc()), "hist": job["hist"]}


def replay(jobs, procs=None):
    procs = procs or min(16, os.cpu_count() or 4, max(1, len(jobs)))
    ctx = mp.get_context("fork")
    # schedules start up to three worker processes with up to 16 threads each: run them a few at a time, after the in-process histories
    heavy = [j for j in jobs if j.get("scenario") == "schedule"]
    light = [j for j in jobs if j.get("scenario") != "schedule"]
    res = []
    if light:
        with ctx.Pool(min(procs, len(light)), maxtasksperchild=8) as pool:
            res += pool.map(_run_job, light, chunksize=1)
    if heavy:
        with ctx.Pool(min(4, len(heavy)), maxtasksperchild=8) as pool:
            res += pool.map(_run_job, heavy, chunksize=1)
    bad = [r for r in res if "machinery_error" in r]
    if bad:
        raise tlc.TLCError("lifecycle driver failure in %d histories, first:\n%s" % (len(bad), bad[0]["machinery_error"]))
    return res


def validate(results, tag):
    traces = [r["events"] for r in results if r["events"]]
    wd = tlc.workdir(tag)
    tf = os.path.join(wd, "traces.json")
    with open(tf, "w") as f:
        json.dump(traces, f)
    res = tlc.run("LifecycleTrace", "Trace.cfg", tag, workers=1, env={"TRACE_FILE": tf}, timeout=3600)
    rejects = []
    done = None
    for v in tlc.printed_values(res.out):
        if v and v[0] == "REJECT":
            rejects.append({"tid": v[1], "step": v[2], "clauses": sorted(str(x) for x in v[3])})
        if v and v[0] == "DONE":
            done = v
    if done is None or done[1] != len(traces):
        raise tlc.TLCError("trace validation did not consume all %d traces (see %s/tlc.out)" % (len(traces), wd))
    return rejects, res.distinct


def run_property(prop, tier, scen_list, per_scen, assumptions, rule, extra_jobs=None):
    """scen_list: [(scenario, [(fam, prof), ...])]; per_scen: histories replayed per (scenario, family)."""
    t = common.Timer()
    common.setup_env()
    jobs = []
    mstats = {}
    tid = 0
    combos = [(scen, fam, prof) for scen, fams in scen_list for fam, prof in fams]
    from concurrent.futures import ThreadPoolExecutor
    # one TLC run per distinct instance of the bounded model (enum_key); the histories are renamed for the other families
    firsts = {}
    for c in combos:
        firsts.setdefault(enum_key(*c), c)
    with ThreadPoolExecutor(max_workers=4) as ex:          # the TLC runs are independent JVMs
        done = dict(zip(firsts.keys(), ex.map(lambda c: enumerate_histories(*c), firsts.values())))
    enumerated = []
    for c in combos:
        hists, st = done[enum_key(*c)]
        if firsts[enum_key(*c)] == c:
            enumerated.append((hists, st))
        else:
            enumerated.append((rename_histories(hists, c[1], c[2]), dict(st, states=0, transitions=0, shared_with="%s/%s/%s" % firsts[enum_key(*c)])))
    for (scen, fam, prof), (hists, st) in zip(combos, enumerated):
            mstats["%s/%s/%s" % (scen, fam, prof)] = st
            r = common.rng("pick", prop, scen, fam, prof)
            n = per_scen if per_scen is not None else len(hists)
            if fam == "caltrack" and tier == "quick":
                n = min(n, 2)          # a CalTRACK hourly fit takes 10-40 s
            chosen = pick_cover(hists, n, r)
            chosen = chosen + reference_histories(chosen)
            for k, h in enumerate(chosen):
                tid += 1
                remote = (tier == "thorough") or (k % 4 == 0)
                script = expand(h, scen, fam, st["aggs"], "%s/%s/%s/%d" % (prop, scen, fam, k), remote, prof)
                jobs.append({"tid": tid, "hist": script, "abstract": h, "scenario": scen, "fam": fam, "prof": prof})
    for j in (extra_jobs or []):
        tid += 1
        j["tid"] = tid
        jobs.append(j)
    results = replay(jobs)
    rejects, tstates = validate(results, "life_trace_" + prop)
    by_tid = {j["tid"]: j for j in jobs}
    res_by_tid = {r["tid"]: r for r in results}
    findings = common.Findings()
    nviol = 0
    foreign = Counter()
    foreign_examples = []
    vclauses = Counter()
    for rj in rejects:
        job = by_tid[rj["tid"]]
        ev = res_by_tid[rj["tid"]]["events"][rj["step"] - 1]
        case = {"scenario": job.get("scenario"), "fam": job.get("fam"), "prof": job.get("prof"), "event": {k: v for k, v in ev.items() if k != "proj"}}
        mine = [c for c in rj["clauses"] if prop in OWN.get(c, {prop})]
        theirs = [c for c in rj["clauses"] if c not in mine]
        for c in theirs:
            foreign[c] += 1
            if foreign[c] <= 3:
                foreign_examples.append("FOREIGN-EXAMPLE clause=%s history=%s/%s/%s step=%d op=%s out=%s args=%s" % (
                    c, job.get("scenario"), job.get("fam"), job.get("prof"), rj["step"], ev["op"], ev.get("out"),
                    json.dumps({k: ev[k] for k in ("s", "d", "ign", "agg", "err") if k in ev})[:200])
                    + " abstract=" + json.dumps([[a.get(k) for k in ("op", "s", "d", "ign", "docix") if a.get(k) is not None] for a in job.get("abstract", [])])[:600])
        unknown = [c for c in mine if findings.match(prop, c, case) is None]
        if unknown:
            nviol += 1
            for c in unknown:
                vclauses[c] += 1
            if nviol <= 10:
                path = common.write_replay(prop, nviol, {"property": prop, "module": "Lifecycle", "failing_clauses": unknown, "step": rj["step"],
                                                         "job": job, "rejected_event": case["event"]})
                print("VIOLATION property=%s replay=%s clauses=%s history=%s/%s/%s step=%d op=%s out=%s" % (
                    prop, path, ",".join(unknown), job.get("scenario"), job.get("fam"), job.get("prof"), rj["step"], ev["op"], ev.get("out")))
    findings.report()
    for line in foreign_examples:
        print(line)
    for c, n in foreign.items():
        print("FOREIGN-REJECTION clause=%s owners=%s count=%d (reported by the owning property's check, not a verdict for %s)" % (c, sorted(OWN.get(c, [])), n, prop))
    nev = sum(len(r["events"]) for r in results)
    unexamined = 0
    opcount = Counter(e["op"] + ":" + str(e.get("out")) for r in results for e in r["events"])
    # vacuity / injectivity guard on the projection: different weather must give different prediction hashes
    predvals = {}
    for r in results:
        for e in r["events"]:
            if e["op"] == "predict" and e.get("out") == "ok" and e.get("nfinite", 0) > 0 and e.get("pvaries", True):
                predvals.setdefault((r["tid"], e["s"]), {})[e["d"].split("/")[-1].split(":")[1]] = e["val"]
    inj_bad = [(k, v) for k, v in predvals.items() if len(v) > 1 and len(set(v.values())) < len(v)]
    inj_note = None
    if inj_bad:
        # information, not a verdict and not a machinery failure: the guard has no way to tell a degenerate model (a flat or an
        # all-but-flat fit) from a degenerate projection, and once fired in the fresh-restore run without being reproducible
        k, v = inj_bad[0]
        same = [sorted(w for w in v if v[w] == h) for h in set(v.values()) if sum(1 for w in v if v[w] == h) > 1]
        inj_note = "%d model slots produced equal prediction hashes for different weather (first: history %s slot %s: %s)" % (len(inj_bad), k[0], k[1], same)
        print("NOTE projection guard: " + inj_note)
    distinct_hist = len({json.dumps(j.get("abstract", j["hist"]), sort_keys=True) + j.get("fam", "") + j.get("prof", "") for j in jobs})
    sample = None
    for r in results:
        if r["events"]:
            sample = {"scenario": by_tid[r["tid"]].get("scenario"), "fam": by_tid[r["tid"]].get("fam"), "abstract_history": by_tid[r["tid"]].get("abstract"),
                      "recorded_events": [{k: v for k, v in e.items() if k not in ("proj",)} for e in r["events"][:12]]}
            break
    cov = {
        "states": sum(s["states"] for s in mstats.values()), "transitions": sum(s["transitions"] for s in mstats.values()),
        "traces_validated_against_impl": len(results), "samples": [sample],
        "projection_guard": inj_note, "evaluations": nev, "distinct_nontrivial": distinct_hist, "rule": rule,
        "exhaustive": per_scen is None, "histories_enumerated_by_tlc": {k: s["histories"] for k, s in mstats.items()},
        "histories_replayed": len(jobs), "recorded_calls": nev, "calls_by_op_and_outcome": dict(opcount),
        "trace_spec_states": tstates, "rejected_steps": len(rejects), "violations_by_clause": dict(vclauses),
        "foreign_rejections": dict(foreign), "unexamined_steps_after_rejections": unexamined,
        "tlc_model_runs": {k: {kk: s[kk] for kk in ("states", "transitions", "depth", "coverage")} for k, s in mstats.items()},
    }
    if extra_jobs is not None:
        from . import schedules
        st = getattr(schedules.jobs, "stats", None)
        if st:
            cov["schedule_model"] = st
            cov["states"] += st["states"]
            cov["transitions"] += st["transitions"]
    common.write_evidence(prop, tier, cov, t(), nviol, assumptions)
    print("%s %s: %d instances of the bounded model (%d states), %d histories replayed, %d calls validated, %d rejected steps, %d violations, %.1fs" % (
        prop, tier, len({enum_key(*c) for c in combos}), cov["states"], len(jobs), nev, len(rejects), nviol, t()))
    return 1 if nviol else 0
