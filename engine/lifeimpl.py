"""I-layer of the Lifecycle module (spec/LifeImpl.tla): heap cells shared by reference, cluster table, params snapshot.
TLC is run on the configuration of the current tree (all three repairs on: every theorem must hold) and on the three
configurations with one repair switched off (each must violate exactly the theorems the repair is there for).  The
result is design-level information written to the evidence of C02 / C04; verdicts come from trace validation only."""
from __future__ import annotations

from . import tlc

CONFIGS = {
    # cfg -> (fix commit the switch stands for, theorems that must be violated with it off, P-layer clauses that reject the real code when the commit is reverted)
    "repaired": (None, set(), []),
    "nocopy": ("4afff0ca", {"DataImmutable", "FitRepeatable"}, ["FitLeavesDataAlone", "FitReturnsOrDataSufficiencyError"]),
    "noclusters": ("bf57b4b9", {"PredictPure", "PredStable"}, ["PredictPure", "PredSameAcrossHistory"]),
    "norefresh": ("29f9c0e7", {"StoredDqIsModelDq", "GateSurvivesStorage"}, ["LoadKeepsDisqualifications", "PredictGate"]),
}
OWNER = {"C02": ["repaired", "nocopy", "noclusters"], "C04": ["repaired", "norefresh"]}


def run(prop):
    out = {"module": "LifeImpl.tla", "configs": {}}
    states = trans = 0
    for name in OWNER.get(prop, []):
        commit, expect, clauses = CONFIGS[name]
        res = tlc.run("LifeImpl", "LifeImpl_%s.cfg" % name, "lifeimpl_%s_%s" % (prop, name), cont=True, workers=4, timeout=900)
        violated = {v for v in res.violations if v in {"DataImmutable", "PredictPure", "FitRepeatable", "PredStable", "StoredDqIsModelDq", "GateSurvivesStorage"}}
        if violated != expect:
            raise tlc.TLCError("LifeImpl configuration %s: theorems violated %s, expected %s - the I-layer no longer explains the repair" % (
                name, sorted(violated), sorted(expect)))
        out["configs"][name] = {"states": res.distinct, "transitions": res.generated, "repair_commit_switched_off": commit,
                                "theorems_violated": sorted(violated), "rejecting_clauses_on_real_code_when_reverted": clauses}
        states += res.distinct
        trans += res.generated
    out["note"] = ("with every repair on (the current tree) all six theorems hold over all histories of <= 5 calls on 2 slots; with one repair off TLC "
                   "returns minimal histories violating the listed theorems (leads, replayed on the real code by tools/try_revert.sh)")
    return out, states, trans
