"""I-layer of the Lifecycle module (spec/LifeImpl.tla): heap cells shared by reference, cluster table, params snapshot.
TLC is run on the configuration of the current tree (all three repairs on: every theorem must hold) and on the three
configurations with one repair switched off (each must violate exactly the theorems the repair is there for).  The
result is design-level information written to the evidence of C02 / C04; verdicts come from trace validation only."""
from __future__ import annotations

from . import tlc

CONFIGS = {
    # cfg -> (fix commit the switch stands for, theorems that must be violated with it off, P-layer clauses that reject the real code when the commit is reverted)
    "repaired": (None, set(), []),
    "nocopy": ("4afff0ca", {"DataImmutable", "FitRepeatable"}, ["FitLeavesDataAlone", "FitReturnsOrDataSufficiencyError"]),
    "noclusters": ("bf57b4b9", {"PredictPure", "PredStable"}, ["PredictPure", "PredSameAcrossHistory"]),
    "norefresh": ("29f9c0e7", {"StoredDqIsModelDq", "GateSurvivesStorage"}, ["LoadKeepsDisqualifications", "PredictGate"]),
    # hazards: no commit of /repo stands behind them; each was observed in a seeded change (the id in place of the commit)
    "sharedscalers": ("seeded/C01_shared_scaler_instances", {"RestoredModelsIndependent", "ResavedScalerIsOwn"}, ["PredSameAfterReload", "ReserialisesToSameDocument"]),
    "handoutcache": ("seeded/C02_baseline_prediction_handed_out_by_reference", {"HandOutsAreCopies"}, ["PredSameAcrossHistory"]),
    "coarsememo": ("seeded/C03_fitting_settings_memo, seeded/C16_error_metrics_memo_survives_refit", {"FitDependsOnItsOwnData"}, ["FitJsonSameAcrossFits", "ReportedStatisticsAreThoseOfTheLastFit"]),
    "classmaps": ("seeded/C13_class_level_combo_dictionary", {"RoutesWithItsOwnMaps"}, ["EachDayPredictedByTheSubModelOfItsCell"]),
    "rejectwipes": ("seeded/C04_refit_wipes_dq", {"GateSurvivesStorage", "StoredDqIsModelDq"}, ["PredictGate"]),
}
OWNER = {"C01": ["repaired", "sharedscalers"], "C02": ["repaired", "nocopy", "noclusters", "handoutcache", "classmaps"], "C03": ["repaired", "coarsememo"],
         "C04": ["repaired", "norefresh", "rejectwipes"]}
THEOREMS = {"DataImmutable", "PredictPure", "FitRepeatable", "PredStable", "StoredDqIsModelDq", "GateSurvivesStorage",
            "RestoredModelsIndependent", "ResavedScalerIsOwn", "HandOutsAreCopies", "FitDependsOnItsOwnData", "RoutesWithItsOwnMaps"}


def run(prop):
    """the result depends on /verif/spec only (not on /repo): cached by the hash of the module and its configurations"""
    import glob, hashlib, json, os
    h = hashlib.sha256()
    for f in sorted(glob.glob(os.path.join(tlc.SPEC, "LifeImpl*"))):
        h.update(open(f, "rb").read())
    key = h.hexdigest()[:16]
    cache = os.path.join(tlc.workdir("lifeimpl_cache"), "%s.json" % prop)
    if os.path.exists(cache):
        try:
            c = json.load(open(cache))
            if c.get("key") == key:
                c["out"]["cached"] = True
                return c["out"], c["states"], c["trans"]
        except Exception:
            pass
    out, states, trans = _run(prop)
    json.dump({"key": key, "out": out, "states": states, "trans": trans}, open(cache, "w"))
    return out, states, trans


def _run(prop):
    out = {"module": "LifeImpl.tla", "configs": {}}
    states = trans = 0
    for name in OWNER.get(prop, []):
        commit, expect, clauses = CONFIGS[name]
        res = tlc.run("LifeImpl", "LifeImpl_%s.cfg" % name, "lifeimpl_%s_%s" % (prop, name), cont=True, workers=4, timeout=900)
        violated = {v for v in res.violations if v in THEOREMS}
        if violated != expect:
            raise tlc.TLCError("LifeImpl configuration %s: theorems violated %s, expected %s - the I-layer no longer explains the repair" % (
                name, sorted(violated), sorted(expect)))
        out["configs"][name] = {"states": res.distinct, "transitions": res.generated, "repair_commit_switched_off": commit,
                                "theorems_violated": sorted(violated), "rejecting_clauses_on_real_code_when_reverted": clauses}
        states += res.distinct
        trans += res.generated
    out["note"] = ("with every repair on and every hazard off (the current tree) all eleven theorems hold over all histories of <= 5 calls on 2 slots "
                   "(two documents of an earlier process in the store); with one repair off / one hazard on TLC returns minimal histories violating the "
                   "listed theorems (repairs: replayed on the real code by tools/try_revert.sh; hazards: by the seeded change named, tools/regress_seeded.sh)")
    return out, states, trans
