"""Per-property configuration of the Lifecycle checks."""
from __future__ import annotations

from . import common, life

COMMON_ASSUMPTIONS = [
    "pi_id projection: objects are compared through SHA-256 of canonical bytes (frames: columns, dtypes, index incl. tz and freq, values; "
    "documents: parsed JSON value with numbers normalised, so 12 and 12.0 are the same document; stored warnings are compared by "
    "qualified name and data, not by their free-text description, which embeds formatted numbers)",
    "the abstract attributes of a data object (family, timezone, disqualification names, calendar coverage) are measured on the real object "
    "when it is constructed and bound from the trace; whether they are the right ones is C10's question",
    "verdicts are TLC's evaluation of LifecycleTrace.tla clauses; after a rejected step validation continues with the abstract state the P-layer prescribes",
]


def plan(prop, tier):
    fam = life.FAMILIES[tier]
    gated = [f for f in fam if f[0] != "caltrack"]
    q = tier == "quick"
    extra_prof = [("hourly", "solar_tf"), ("daily", "custommaps")] if q else []      # profiles C01's quick tier also fits: the clauses owned here are judged on them too
    if prop == "C04":
        return dict(scen=[("gate", gated + extra_prof), ("gate2", gated if not q else gated[:2]), ("refit", gated), ("free", gated if not q else gated[:2])], per=(6 if q else 16),
                    rule="histories new/fit/sweep/save/restart/load over baselines {qualified, too short, poor fit, gaps, other tz} x ignore flags; "
                         "a sweep predicts every (report kind, ignore flag, aggregation); distinct = distinct (abstract history, family, profile)" + "; plus free-form histories (template T_free: every operation allowed at every position, 300 behaviours per family from tlc -simulate with the invariants checked along them, depth 12) chosen by feature cover",
                    extra=["C04 is decided for the three families that have a gate (daily, billing, hourly); the CalTRACK hourly wrapper has none",
                           "any exception class is accepted for unfitted / foreign type / other timezone / bad aggregation; only the gate's class is fixed"])
    if prop == "C01":
        if q:
            fam = fam + [("hourly", "solar_tf"), ("daily", "custommaps"), ("caltrack", "caltrack")]      # C01 names the CalTRACK family
        two = [f for f in fam if f in (("hourly", "default"), ("daily", "legacy"))] if q else [f for f in fam if f[0] != "caltrack"]
        return dict(scen=[("store", fam), ("store2", two)] + ([] if q else [("free", fam)]), per=(5 if q else 16),
                    rule="histories fit/sweep/save/(restart)/load/sweep/resave per family and profile; distinct = distinct (abstract history, family, profile)",
                    extra=["document equality is JSON-value equality", "the formula clause of C01 is decided by the DailyCurve module (C11/C12 checks), not here"])
    if prop == "C02":
        return dict(scen=[("pure", fam + extra_prof + ([("caltrack", "caltrack")] if q else [])), ("inter", fam if not q else fam[:3]), ("free", fam if not q else fam[1:3])], per=(6 if q else 16),
                    rule="histories of 4-6 predicts over reports of five spans with/without observed, interleaved fits on a second slot, user "
                         "overwriting frames handed out; whole-state projection compared after every call" + "; plus free-form histories (template T_free: every operation allowed at every position, 300 behaviours per family from tlc -simulate with the invariants checked along them, depth 12) chosen by feature cover",
                    extra=[])
    if prop == "C05":
        return dict(scen=[("obs", fam + [("hourly", "mincluster")])], per=(12 if q else 30),
                    rule="histories of three predicts over 15 (weather, observed-variant) reports - variants {orig, x3, shuffled, 30% NaN, zeros, all NaN, absent} of a year, a part-year and a weather feed with gaps - in TLC-enumerated orders, chosen by feature cover; "
                         "prediction hashes taken on the rows every variant produces",
                    extra=["compared on probe rows (those not blanked in the 30%-NaN variant), which every variant predicts"])
    if prop == "C03":
        # `inter`: a model object fitted again on another meter after it was used - with the fresh-object reference histories
        return dict(scen=[("warm", (fam if not q else fam[:3]) + [("hourly", "fewclusters")]), ("inter", [f for f in fam if f[0] in ("daily", "billing")][:2] if q else fam)], per=(4 if q else 12),
                    rule="in-process histories with unrelated prior use (rng, settings, other fits) plus multi-process schedules (see schedules)",
                    extra=["OS-level timing interleavings of independent processes are not controlled"])
    raise KeyError(prop)


def run(prop, tier):
    p = plan(prop, tier)
    extra_jobs = None
    if prop == "C03":
        from . import schedules
        extra_jobs = schedules.jobs(tier)
    if prop == "C05":
        # sub-hourly report feed of the CalTRACK family (its data class resamples to hours): one scripted history, both tiers
        fam, rep = "caltrack", []
        hist = [{"op": "make", "d": "b:good", "fam": fam, "kind": "baseline", "name": "good"}, {"op": "new", "s": "s1", "fam": fam, "prof": "caltrack", "seed": 1},
                {"op": "fit", "s": "s1", "d": "b:good", "ign": True}]
        for obs in ("orig", "partnan", "absent", "x3", "allnan"):
            d = "r:whalf:" + obs
            hist.append({"op": "make", "d": d, "fam": fam, "kind": "reporting", "name": "whalf", "obs": obs})
            hist.append({"op": "predict", "s": "s1", "d": d, "ign": True, "agg": "None"})
        extra_jobs = [{"hist": hist, "abstract": [{"op": "subhourly", "fam": fam}], "scenario": "subhourly", "fam": fam, "prof": "caltrack"}]
    if prop == "C02":
        # data objects only (no fit): every family's data classes, all entry forms, must leave the caller's frames alone.  This is
        # how the CalTRACK hourly family (whose fit takes 10 s and is otherwise thorough-only) is present in the quick tier.
        extra_jobs = []
        for fam in ("caltrack", "hourly", "daily", "billing"):
            hist = []
            for did, kind, name, obs in (("b:good", "baseline", "good", "orig"), ("b:gaps", "baseline", "gaps", "orig"),
                                         ("r:wmonth:orig", "reporting", "wmonth", "orig"), ("r:wweek:absent", "reporting", "wweek", "absent")) + \
                    ((("r:whalf:orig", "reporting", "whalf", "orig"), ("r:whalf:partnan", "reporting", "whalf", "partnan")) if fam == "caltrack" else ()):      # 30-minute feed, index without a frequency
                for entry in (["frame"] if fam == "caltrack" else ["frame", "dtcol", "naive", "notemp"] + (["series", "series_utc"] if fam in ("daily", "billing") else [])):
                    hist.append({"op": "make", "d": "%s@%s" % (did, entry), "fam": fam, "kind": kind, "name": name, "obs": obs, "entry": entry})
            hist.append({"op": "readdf", "d": "b:good@frame"})
            extra_jobs.append({"hist": hist, "abstract": [{"op": "dataonly", "fam": fam}], "scenario": "dataonly", "fam": fam, "prof": "-"})
    rc = life.run_property(prop, tier, p["scen"], p["per"], COMMON_ASSUMPTIONS + p["extra"], p["rule"], extra_jobs=extra_jobs)
    if prop in ("C01", "C02", "C03", "C04"):
        # design-level I-layer (information in the evidence; a drift of the I-layer is a machinery failure, never a verdict)
        import json, os
        from . import lifeimpl
        info, st, tr = lifeimpl.run(prop)
        path = os.path.join(common.EVID, prop + ".json")
        doc = json.load(open(path))
        doc["coverage"]["structural_model"] = info
        doc["coverage"]["states"] += st
        doc["coverage"]["transitions"] += tr
        common.write_evidence(prop, doc["tier"], doc["coverage"], doc["wall_s"], doc["violations"], doc["assumptions"])
        print("%s %s: I-layer LifeImpl: %s" % (prop, tier, ", ".join("%s -> %s" % (k, v["theorems_violated"] or "all theorems hold") for k, v in info["configs"].items())))
    return rc


def replay(prop, payload):
    common.setup_env()
    job = dict(payload["job"])
    job["tid"] = 1
    res = life.replay([job])
    rejects, _ = life.validate(res, "life_replay_" + prop)
    for rj in rejects:
        print("REPLAY-REJECT step=%d clauses=%s" % (rj["step"], rj["clauses"]))
    mine = [rj for rj in rejects if any(prop in life.OWN.get(c, {prop}) for c in rj["clauses"])]
    if mine:
        print("VIOLATION property=%s replay=(this file)" % prop)
        return 1
    print("replay accepted")
    return 0


def selftest(prop):
    from . import lifeselftest
    return lifeselftest.run(prop)
