"""Binding self-test for the Lifecycle trace specification: corrupt one recorded field at a time in an accepted execution and
require TLC to reject the step with the expected clause."""
from __future__ import annotations

import copy

from . import common, life, tlc


def _script(fam, prof, base):
    return [
        {"op": "make", "d": "b:%s" % base, "fam": fam, "kind": "baseline", "name": base},
        {"op": "make", "d": "r:wmonth:orig", "fam": fam, "kind": "reporting", "name": "wmonth", "obs": "orig"},
        {"op": "make", "d": "r:wweek:orig", "fam": fam, "kind": "reporting", "name": "wweek", "obs": "orig"},
        {"op": "new", "s": "s1", "fam": fam, "prof": prof, "seed": 1},
        {"op": "fit", "s": "s1", "d": "b:%s" % base, "ign": True},
        {"op": "predict", "s": "s1", "d": "r:wmonth:orig", "ign": False, "agg": "None"},
        {"op": "predict", "s": "s1", "d": "r:wweek:orig", "ign": True, "agg": "None"},
        {"op": "save", "s": "s1"},
        {"op": "load", "s": "s2", "docix": 1},
        {"op": "predict", "s": "s2", "d": "r:wmonth:orig", "ign": True, "agg": "None"},
        {"op": "readdf", "d": "b:%s" % base},
    ]


def corruptions(events):
    """yield (name, expected clause prefix, corrupted events)"""
    def idx(op, nth=0):
        return [k for k, e in enumerate(events) if e["op"] == op][nth]
    ev = copy.deepcopy(events); k = idx("predict", 1); ev[k]["val"] = "corrupted"; yield "predict.val", "PredSame", ev
    ev = copy.deepcopy(events); k = idx("predict", 1); ev[k]["proj"]["m"]["p1/s1"]["json"] = "corrupted"; yield "predict.proj.model", "PredictPure", ev
    ev = copy.deepcopy(events); k = idx("predict", 1); ev[k]["rows_ok"] = False; yield "predict.rows", "OneRowPerInputTimestamp", ev
    ev = copy.deepcopy(events); k = idx("fit"); d = [x for x in ev[k]["proj"]["d"] if x.startswith("p1/b:")][0]
    ev[k]["proj"]["d"][d]["dq"] = "corrupted"; yield "fit.proj.data", "FitLeavesDataAlone", ev
    ev = copy.deepcopy(events); k = idx("fit"); ev[k]["proj"]["m"]["p1/s1"]["dq"] = ev[k]["proj"]["m"]["p1/s1"]["dq"] + ["extra.dq"]; yield "fit.model.dq", "ModelCarriesDataAndPoorFitDq", ev
    ev = copy.deepcopy(events); k = idx("fit"); ev[k]["proj"]["m"]["p1/s1"]["tz"] = "Mars/Phobos"; yield "fit.model.tz", "ModelKeepsBaselineTimezone", ev
    ev = copy.deepcopy(events); k = idx("predict", 0)
    ev[k]["out"] = "ok" if ev[k]["out"] != "ok" else "DisqualifiedModelError"; yield "predict.out", "PredictGate", ev
    ev = copy.deepcopy(events); k = idx("load"); ev[k]["proj"]["m"]["p1/s2"]["json"] = "corrupted"; yield "load.json", "ReserialisesToSameDocument", ev
    ev = copy.deepcopy(events); k = idx("load"); ev[k]["proj"]["m"]["p1/s2"]["dq"] = ev[k]["proj"]["m"]["p1/s2"]["dq"] + ["x"]; yield "load.dq", "LoadKeepsDisqualifications", ev
    ev = copy.deepcopy(events); k = idx("load"); ev[k]["proj"]["m"]["p1/s2"]["warn"] = "corrupted"; yield "load.warn", "LoadKeepsWarnings", ev
    ev = copy.deepcopy(events); k = idx("predict", 2); ev[k]["val"] = "corrupted"; yield "reload.predict.val", "PredSame", ev
    ev = copy.deepcopy(events); k = idx("make", 0); ev[k]["ext_before"] = "corrupted"; yield "make.ext", "CallerFramesUntouched", ev
    ev = copy.deepcopy(events); k = idx("readdf"); d = [x for x in ev[k]["proj"]["d"] if x.startswith("p1/b:")][0]
    ev[k]["proj"]["d"][d]["df"] = "corrupted"; yield "readdf.data", "HandedOutFramesAreCopies", ev
    ev = copy.deepcopy(events); k = idx("save"); ev[k]["doc"] = "corrupted"; yield "save.doc", "SaveIsToJson", ev
    ev = copy.deepcopy(events); k = idx("predict", 1); ev[k]["pv"] = ["zzz" if x != "missing" else x for x in ev[k]["pv"]]
    ev2 = copy.deepcopy(events[k]); ev2["d"] = events[k]["d"]; yield "predict.pv(second predict of the same weather)", "", ev[:k + 1] + [dict(ev2)] + ev[k + 1:]
    ev = copy.deepcopy(events); del ev[idx("fit")]; yield "drop.fit", "", ev


def run(prop):
    common.setup_env()
    jobs = [{"tid": 1, "hist": _script("daily", "legacy", "poor")}, {"tid": 2, "hist": _script("hourly", "default", "good")}]
    res = life.replay(jobs)
    rejects, _ = life.validate(res, "life_selftest")
    if rejects:
        print("SELFTEST-FAILED %s: the uncorrupted executions are rejected: %s" % (prop, rejects))
        return 2
    batch = [dict(r) for r in res]
    expect = {}
    tid = 100
    for r in res:
        for name, clause, ev in corruptions(r["events"]):
            tid += 1
            for e in ev:
                e["tid"] = tid
            batch.append({"tid": tid, "events": ev})
            expect[tid] = (name, clause)
    rejects, _ = life.validate(batch, "life_selftest")
    got = {rj["tid"]: rj for rj in rejects}
    missed = []
    for tid, (name, clause) in expect.items():
        rj = got.get(tid)
        if rj is None or (clause and not any(c.startswith(clause) for c in rj["clauses"])):
            missed.append((tid, name, clause, rj))
    spurious = [rj for rj in rejects if rj["tid"] < 100]
    print("SELFTEST %s: %d corrupted executions, %d rejected with the expected clause, %d missed, %d spurious" % (prop, len(expect), len(expect) - len(missed), len(missed), len(spurious)))
    for m in missed:
        print("SELFTEST-MISSED", m)
    return 0 if not missed and not spurious else 2
