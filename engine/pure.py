"""Generic three-stage runner for the 'pure' specification modules (one abstract call per case):
MODEL (TLC over the bounded space, dump) -> REPLAY (real code on each selected abstract case) ->
VALIDATE (TLC trace specification judges every recorded call against the P-layer)."""
from __future__ import annotations

import json
import multiprocessing as mp
import os
import re
import sys
import traceback

from . import common, tlaval, tlc


def iter_dump_blocks(path):
    with open(path) as f:
        buf = []
        for line in f:
            if line.startswith("State "):
                if buf:
                    yield "".join(buf)
                buf = []
            elif line.strip():
                buf.append(line)
        if buf:
            yield "".join(buf)


def select_states(dump_path, n, salt, keep=lambda blk: True, always=None):
    """Two-pass selection: count matching blocks, choose n indices with the seeded rng, parse only those.
    Blocks for which `always(blk)` holds are selected unconditionally (small strata that must not be sampled away)."""
    total = 0
    forced = set()
    for blk in iter_dump_blocks(dump_path):
        if keep(blk):
            if always is not None and always(blk):
                forced.add(total)
            total += 1
    r = common.rng("select", salt)
    if n is None or n >= total:
        chosen = None
    else:
        rest = [k for k in range(total) if k not in forced]
        chosen = set(r.sample(rest, min(len(rest), max(0, n - len(forced))))) | forced
    out = []
    k = 0
    for blk in iter_dump_blocks(dump_path):
        if not keep(blk):
            continue
        if chosen is None or k in chosen:
            out.append(tlaval.to_json(tlaval.parse_state(blk)))
        k += 1
    return out, total


_DRIVER = None


def _init_worker(driver_mod):
    global _DRIVER
    common.setup_env()
    common.quiet()
    import importlib
    _DRIVER = importlib.import_module(driver_mod)
    if hasattr(_DRIVER, "init"):
        _DRIVER.init()


def _run_one(job):
    cid, cin, extra = job
    try:
        out = _DRIVER.realise(cin, extra)
    except Exception as ex:  # the driver itself failed: machinery error, not a verdict
        return {"id": cid, "in": cin, "machinery_error": "%s: %s\n%s" % (type(ex).__name__, ex, traceback.format_exc())}
    if isinstance(out, dict) and "in2" in out and "out" in out:      # the driver refined the abstract input (padding, measured rows)
        rec = {"id": cid, "in": out["in2"], "out": out["out"], "abstract_in": cin}
    else:
        rec = {"id": cid, "in": cin, "out": out}
    if extra is not None:
        rec["variant"] = extra
    return rec


def replay(driver_mod: str, jobs, procs=None):
    procs = procs or min(16, os.cpu_count() or 4)
    if len(jobs) < 64:
        procs = min(procs, 2)
    ctx = mp.get_context("fork")
    with ctx.Pool(procs, initializer=_init_worker, initargs=(driver_mod,)) as pool:
        res = pool.map(_run_one, jobs, chunksize=max(1, len(jobs) // (procs * 8)))
    bad = [r for r in res if "machinery_error" in r]
    if bad:
        raise tlc.TLCError("driver failure on %d cases, first:\n%s\ncase=%s" % (len(bad), bad[0]["machinery_error"], json.dumps(bad[0]["in"])))
    return res


def validate(trace_module: str, cases, tag: str, chunk=20000):
    """Run the trace specification over cases; returns {case id: set of failing clause names}."""
    rejects = {}
    states = 0
    for k in range(0, len(cases), chunk):
        part = cases[k:k + chunk]
        wd = tlc.workdir(tag)
        tf = os.path.join(wd, "trace_%d.json" % k)
        with open(tf, "w") as f:
            json.dump([{kk: c[kk] for kk in ("id", "in", "out")} for c in part], f)
        res = tlc.run(trace_module, "Trace.cfg", tag, workers=1, env={"TRACE_FILE": tf})
        if res.depth != len(part) + 1:
            raise tlc.TLCError("trace validation consumed %d of %d recorded calls (see %s/tlc.out)" % (res.depth - 1, len(part), wd))
        states += res.distinct
        for v in tlc.printed_values(res.out):
            if len(v) == 3 and v[0] == "REJECT":
                rejects[v[1]] = sorted(str(x) for x in v[2])
    return rejects, states
