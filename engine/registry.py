"""Property id -> check entry."""
from __future__ import annotations

from . import common, runner


class PureEntry:
    def __init__(self, spec: runner.PureSpec):
        self.spec = spec

    def run(self, tier):
        return runner.run_pure(self.spec, tier)

    def replay(self, payload):
        return runner.run_pure(self.spec, "quick", only_cases=[payload["case"]])

    def selftest(self):
        return runner.selftest_pure(self.spec)


def _window():
    from drivers import window

    def variants(tier, r, cin):
        return list(window.SHAPES) if tier == "thorough" else [r.choice(window.SHAPES)]

    def drift(spec_out, code_out):
        if spec_out["res"] != code_out["res"]:
            return False
        return spec_out["res"] != "ok" or (spec_out["oidx"] == code_out["oidx"] and sorted(spec_out["warns"]) == sorted(code_out["warns"]))

    return runner.PureSpec(
        prop="C20", module="Window", trace_module="WindowTrace", driver="drivers.window",
        cfg={"quick": "Window_quick.cfg", "thorough": "Window_thorough.cfg"},
        sample={"quick": 12000, "thorough": 150000}, variants=variants, drift=drift,
        spec_files=["Window.tla", "WindowDefs.tla", "WindowTrace.tla"],
        rule="every abstract call (index of <= MaxLen instants, null pattern, limits on/between/outside the instants, max_days, "
             "overshoot, ignore-gap, overshoot days; baseline and reporting) enumerated by TLC; a seeded sample of the dumped states is "
             "realised on the real functions in 4 series shapes; non-trivial = the call cuts rows off or ends in an error",
        assumptions=["abstract timeline is scale-free: integer instants are realised as 1-, 2- and 30-day steps in UTC, America/Chicago and Asia/Kolkata",
                     "reading: with overshoot the soft limit may move to the nearest boundary and its gap warning is not demanded; with "
                     "ignore_billing_period_gap_for_day_count the hard-limit gap warning is not demanded (pinned by tests/test_transform.py)",
                     "reading: a selected window whose rows are all null may raise the dedicated error or be returned",
                     "the verdict is TLC's evaluation of WindowDefs!Clauses on the recorded projection; the driver only measures"],
        invariants_note="MC config also checks NoLeakI (the I-layer never leaks) and POracleTotal; `lead` records P-clauses the I-layer fails")


def _rowframe(prop):
    from drivers import rowframe

    def variants(tier, r, cin):
        return list(rowframe.VARIANTS) if tier == "thorough" else [r.choice(rowframe.VARIANTS)]

    return runner.PureSpec(
        prop=prop, module="RowFrame", trace_module="RowFrameTrace", driver="drivers.rowframe",
        cfg={"quick": "RowFrame_quick.cfg", "thorough": "RowFrame_thorough.cfg"},
        sample={"quick": 1500, "thorough": None}, variants=variants,
        spec_files=["RowFrame.tla", "RowFrameDefs.tla", "RowFrameTrace.tla"],
        rule="every pattern of <= MaxRows rows over temperature {finite, NaN, +inf, -inf} x usage {value, missing}, daily and billing, "
             "enumerated by TLC; each is embedded (daily: a day per row, padded to 0/30/120/366 days; billing: a calendar month per row) in a real "
             "reporting frame and predicted with a constructed integer-coefficient document; non-trivial = at least one masked row",
        assumptions=["integer temperatures, usage and coefficients make every value exact in binary64, so sums are compared as integers by TLC",
                     "usage counts as supplied when at least one row has a value (the data classes drop an all-empty observed column)",
                     "single-sub-model documents here; routing among sub-models is C13's question",
                     "non-finite usage (inf) is outside C07's quantifier and not generated"],
        invariants_note="MC config checks that the P-layer's own expected outcome satisfies every clause (oracle self-consistency)")


def _agg():
    from drivers import agg

    def variants(tier, r, cin):
        return list(agg.VARIANTS) if tier == "thorough" else [r.choice(agg.VARIANTS)]

    return runner.PureSpec(
        prop="C19", module="Agg", trace_module="AggTrace", driver="drivers.agg", keep='pc = "done"',
        cfg={"quick": "Agg_quick.cfg", "thorough": "Agg_thorough.cfg"}, sample={"quick": 700, "thorough": None}, variants=variants,
        spec_files=["Agg.tla", "AggDefs.tla", "AggTrace.tla", "Cal.tla"], in_field="lay",
        rule="every layout (start date incl. month ends and a leap day, span 1..150 days, temperature-gap pattern, observed pattern, aggregation "
             "argument incl. 3-6 invalid spellings) enumerated by TLC with the civil calendar of Cal.tla; each is realised as a billing reporting "
             "object in 4 zones and predicted at the daily level and with the argument; non-trivial = more than one period, or a rejected argument",
        assumptions=["the daily rows of the same model and data (aggregation=None) are the abstract input of the aggregation clauses",
                     "integer temperatures / coefficients / usage make sums exact; observed sums are only demanded where the data class kept "
                     "the per-day usage integer (no DST change inside a billing month)",
                     "temperature means are snapped with Fraction.limit_denominator(1000) and compared by cross-multiplication; "
                     "uncertainty is compared squared"],
        invariants_note="MC config checks oracle self-consistency, equal grand totals at the monthly and bi-monthly level, and the period count")


class LifeEntry:
    def __init__(self, prop):
        self.prop = prop

    def run(self, tier):
        from . import life, lifeprops
        return lifeprops.run(self.prop, tier)

    def replay(self, payload):
        from . import lifeprops
        return lifeprops.replay(self.prop, payload)

    def selftest(self):
        from . import lifeprops
        return lifeprops.selftest(self.prop)


_REG = {"C20": lambda: PureEntry(_window()), "C07": lambda: PureEntry(_rowframe("C07")), "C19": lambda: PureEntry(_agg())}
for _p in ("C01", "C02", "C03", "C04", "C05"):
    _REG[_p] = (lambda p: (lambda: LifeEntry(p)))(_p)


def get(prop):
    if prop not in _REG:
        raise KeyError("no check registered for %s" % prop)
    return _REG[prop]()
