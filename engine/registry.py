"""Property id -> check entry."""
from __future__ import annotations

from . import common, runner, tlc


class _Not:
    """`clause in _Not(S)` holds for every clause outside S"""
    def __init__(self, s):
        self.s = set(s)

    def __contains__(self, x):
        return x not in self.s


class PureEntry:
    def __init__(self, spec: runner.PureSpec, foreign=()):
        self.spec = spec
        self.foreign = set(foreign)       # clauses of the module that another property's check owns

    def _owned(self):
        return _Not(self.foreign) if self.foreign else None

    def run(self, tier):
        return runner.run_pure(self.spec, tier, owned=self._owned())

    def replay(self, payload):
        return runner.run_pure(self.spec, "quick", only_cases=[payload["case"]], owned=self._owned())

    def selftest(self):
        return runner.selftest_pure(self.spec)


def _window():
    from drivers import window

    def variants(tier, r, cin):
        return list(window.SHAPES) if tier == "thorough" else [r.choice(window.SHAPES)]

    def drift(spec_out, code_out):
        if spec_out["res"] != code_out["res"]:
            return False
        return spec_out["res"] != "ok" or (spec_out["oidx"] == code_out["oidx"] and sorted(spec_out["warns"]) == sorted(code_out["warns"]))

    return runner.PureSpec(
        prop="C20", module="Window", trace_module="WindowTrace", driver="drivers.window",
        cfg={"quick": "Window_quick.cfg", "thorough": "Window_thorough.cfg"},
        sample={"quick": 12000, "thorough": 150000}, variants=variants, drift=drift,
        spec_files=["Window.tla", "WindowDefs.tla", "WindowTrace.tla"],
        rule="every abstract call (index of <= MaxLen instants, null pattern, limits on/between/outside the instants, max_days, "
             "overshoot, ignore-gap, overshoot days; baseline and reporting) enumerated by TLC; a seeded sample of the dumped states is "
             "realised on the real functions in 4 series shapes; non-trivial = the call cuts rows off or ends in an error",
        assumptions=["abstract timeline is scale-free: integer instants are realised as 1-, 2- and 30-day steps in UTC, America/Chicago and Asia/Kolkata",
                     "reading: with overshoot the soft limit may move to the nearest boundary and its gap warning is not demanded; with "
                     "ignore_billing_period_gap_for_day_count the hard-limit gap warning is not demanded (pinned by tests/test_transform.py)",
                     "reading: a selected window whose rows are all null may raise the dedicated error or be returned",
                     "the verdict is TLC's evaluation of WindowDefs!Clauses on the recorded projection; the driver only measures"],
        invariants_note="MC config also checks NoLeakI (the I-layer never leaks) and POracleTotal; `lead` records P-clauses the I-layer fails")


def _rowframe(prop):
    from drivers import rowframe

    def variants(tier, r, cin):
        return list(rowframe.VARIANTS) if tier == "thorough" else [r.choice(rowframe.VARIANTS[:4] + rowframe.VARIANTS[4:] * 2)]      # the nullable-dtype variant for a third of the patterns

    return runner.PureSpec(
        prop=prop, module="RowFrame", trace_module="RowFrameTrace", driver="drivers.rowframe",
        cfg={"quick": "RowFrame_quick.cfg", "thorough": "RowFrame_thorough.cfg"},
        sample={"quick": 1500, "thorough": 10000}, variants=variants,       # all 149,792 patterns x 4 variants took over an hour, 30,000 half an hour
        spec_files=["RowFrame.tla", "RowFrameDefs.tla", "RowFrameTrace.tla"],
        rule="every pattern of <= MaxRows rows over temperature {finite, NaN, +inf, -inf} x usage {value, missing}, daily and billing, "
             "enumerated by TLC; each is embedded (daily: a day per row, padded to 0/30/120/366 days; billing: a calendar month per row) in a real "
             "reporting frame and predicted with a constructed integer-coefficient document; non-trivial = at least one masked row",
        assumptions=["integer temperatures, usage and coefficients make every value exact in binary64, so sums are compared as integers by TLC",
                     "usage counts as supplied when at least one row has a value (the data classes drop an all-empty observed column)",
                     "single-sub-model documents here; routing among sub-models is C13's question",
                     "non-finite usage (inf) is outside C07's quantifier and not generated"],
        invariants_note="MC config checks that the P-layer's own expected outcome satisfies every clause (oracle self-consistency)")


def _agg():
    from drivers import agg

    def variants(tier, r, cin):
        # quick: one single-model zone and one `|split` variant (a sub-model per season) per layout
        return list(agg.VARIANTS) if tier == "thorough" else [r.choice(agg.VARIANTS[:4]), r.choice(agg.VARIANTS[4:])]

    return runner.PureSpec(
        prop="C19", module="Agg", trace_module="AggTrace", driver="drivers.agg", keep='pc = "done"',
        cfg={"quick": "Agg_quick.cfg", "thorough": "Agg_thorough.cfg"}, sample={"quick": 700, "thorough": None}, variants=variants,
        spec_files=["Agg.tla", "AggDefs.tla", "AggTrace.tla", "Cal.tla"], in_field="lay",
        rule="every layout (start date incl. month ends and a leap day, span 1..150 days, temperature-gap pattern, observed pattern, aggregation "
             "argument incl. 3-6 invalid spellings) enumerated by TLC with the civil calendar of Cal.tla; each is realised as a billing reporting "
             "object in 4 zones and predicted at the daily level and with the argument; non-trivial = more than one period, or a rejected argument",
        assumptions=["the daily rows of the same model and data (aggregation=None) are the abstract input of the aggregation clauses",
                     "integer temperatures / coefficients / usage make sums exact; observed sums are only demanded where the data class kept "
                     "the per-day usage integer (no DST change inside a billing month)",
                     "temperature means are snapped with Fraction.limit_denominator(1000) and compared by cross-multiplication; "
                     "uncertainty is compared squared"],
        invariants_note="MC config checks oracle self-consistency, equal grand totals at the monthly and bi-monthly level, and the period count")


def _clock():
    from drivers import clock

    def variants(tier, r, cin):
        return ["witness"]

    def extra(tier):
        clock.init()
        out = []
        # half-hour clock changes (outside the three day kinds): only the number of real clock hours of the day is modelled
        for date in ("2020-10-04", "2020-04-05"):
            for ua in (True, False):
                n = len(clock.local_day_index("Australia/Lord_Howe", date, ua))
                days = [{"k": "N", "h": 0}, {"k": "X", "h": 0, "n": n}, {"k": "N", "h": 0}]
                out.append(({"lvl": "api", "zone": "Australia/Lord_Howe", "days": days, "obs": "present", "utc_aligned": ua}, {"tz": "Australia/Lord_Howe", "date": date}))
        if tier != "thorough":
            return out
        for tz, date, kind in clock.iana_transitions():
            if kind[0] not in ("S", "F"):
                continue
            days = [{"k": "N", "h": 0}, {"k": kind[0], "h": kind[1]}, {"k": "N", "h": 0}]
            out.append(({"lvl": "fn", "zone": tz, "days": days, "obs": "present"}, {"tz": tz, "date": date}))
        return out

    return runner.PureSpec(
        prop="C06", module="ClockMC", trace_module="ClockTrace", driver="drivers.clock",
        cfg={"quick": "Clock_quick.cfg", "thorough": "Clock_thorough.cfg"}, sample={"quick": None, "thorough": None}, variants=variants,
        spec_files=["Clock.tla", "ClockDefs.tla", "ClockMC.tla", "ClockTrace.tla"], extra_cases=extra,
        rule="every sequence of <= MaxDays local days over the day kinds {N, S@h, F@h} of four zone classes (Chicago h=2/1, London 1/1, Havana 0/0, "
             "Sao Paulo 0/23), function level (real _get_dst_indices + _transform_dst with slot-number codes) and API level (HourlyModel.predict "
             "on a real contiguous frame, observed present/blank/absent); thorough adds the normalisation step on every 23/25-hour day of every "
             "IANA zone 2000-2037; non-trivial = the sequence contains a clock change",
        assumptions=["day kinds are realised by real local dates found with zoneinfo; a frame is assembled from UTC hours so skipped/repeated hours are real",
                     "P-layer constrains which slot a row's value comes from, not how a repeated hour's second value is interpolated",
                     "zones whose clock change is not a whole hour (Australia/Lord_Howe) or that skip a day are outside the three day kinds and are "
                     "listed in the evidence, not judged by this module",
                     "the daily/billing half of C06 (row per timestamp, finiteness pattern) is decided by the RowFrame stage of this check"],
        invariants_note="MC config checks I => P (the transcribed _transform_dst fence-post slicing returns one value per clock hour from the right slot)")


def _seg():
    return runner.PureSpec(
        prop="C18", module="Seg", trace_module="SegTrace", driver="drivers.seg",
        cfg={"quick": "Seg_quick.cfg", "thorough": "Seg_thorough.cfg"}, sample={"quick": 4000, "thorough": None}, variants=lambda tier, r, cin: ["-"],
        spec_files=["Seg.tla", "SegDefs.tla", "SegTrace.tla"], always=lambda b: 'kind |-> "occ"' not in b,
        rule="TLC enumerates (segment type x year x month x zone) weight cases, (year x month x zone) routing cases, (temperature x endpoint subset) "
             "bin cases, (occupancy x temperature x two endpoint subsets) feature cases and all 168 hour-of-week cases; weight and routing cases are "
             "decided over every hour of the month in a leap and a non-leap year; non-trivial = everything except the empty-endpoint bin case",
        assumptions=["weights are compared doubled as integers; bin features on integer temperatures are exact",
                     "routing is observed through a CalTRACKHourlyModel whose twelve segment models are replaced by constants naming their centre month",
                     "a weight/routing case covers all hours of its month by requiring a single distinct weight row / model code among them"],
        invariants_note="MC config checks the partition-of-unity theorems of the weight tables, that routing inverts 'full weight', the bin theorems "
                        "(sum to T, non-negative, width-bounded, prefix-filled) and that 24*dow+hour is onto 0..167")


def _settings():
    return runner.PureSpec(
        prop="C14", module="Settings", trace_module="SettingsTrace", driver="drivers.settings",
        cfg={"quick": "Settings_quick.cfg", "thorough": "Settings_thorough.cfg"}, sample={"quick": None, "thorough": None},
        variants=lambda tier, r, cin: ["-"], spec_files=["Settings.tla", "SettingsDefs.tla", "SettingsTable.tla", "SettingsTrace.tla"],
        rule="exhaustive: every field of the current / legacy / billing / hourly trees x {approved value, a valid alternative, an invalid value} x "
             "developer mode on/off x key spelling {plain, UPPER, padded} x {dict, nested object}, the four no-argument constructions, 14 cross-field "
             "cases and the stored-settings cases; each builds a real DailyModel / BillingModel / HourlyModel; non-trivial = anything but re-stating a default",
        assumptions=["spec/SettingsTable.tla pins the approved constants, developer flags and the alternative / invalid values; it was generated once from "
                     "the code and committed, and is never regenerated by a check",
                     "the hourly tree has no developer lock in the code or in the statement: for it the approved constants, acceptance of valid and "
                     "rejection of invalid values are checked",
                     "stored-settings cases compare the document with the settings taken right after construction (before the fit); an hourly train_features left "
                     "unset is resolved from the baseline's columns by the fit and is not compared, an explicitly given list is",
                     "BillingModel is built on the legacy constants (BillingSettings is only used by BillingWeightedModel); its documents force "
                     "developer_mode, which is ignored when comparing stored settings"],
        invariants_note="MC config checks that every developer-only field has an alternative value (the lock is exercised for every such field), every "
                        "field has an invalid value, and paths are unique per tree")


def _suff():
    from drivers import suff

    def variants(tier, r, cin):
        vs = list(suff.VARIANTS)
        if cin["cls"] == "hourly":
            vs = [v for v in vs if v.startswith("frame")]
        return vs if tier == "thorough" else [r.choice(vs)]

    return runner.PureSpec(
        prop="C10", module="Suff", trace_module="SuffTrace", driver="drivers.suff",
        cfg={"quick": "Suff_quick.cfg", "thorough": "Suff_thorough.cfg"}, sample={"quick": 1400, "thorough": 12000}, variants=variants,
        spec_files=["Suff.tla", "SuffDefs.tla", "SuffTrace.tla", "Cal.tla"],
        always=lambda b: ('span |-> 328' in b and 'cls |-> "billing"' in b) or ('lead |-> 6' in b and 'trail |-> 5' in b) or 'mcase |-> TRUE' in b
                          or 'span |-> 420' in b,   # known-finding cases and the second-year gaps are never sampled away
        rule="TLC enumerates class x role x fuel x negatives x start date x span {250..420 incl. 328/329/365/366} x missing-usage and "
             "missing-temperature day counts at each 90% threshold -1/0/+1 x placements (block, early block, spread), plus the monthly-rule cases (1..4 consecutive days of one 30-day / 31-day / February / partial first month without temperature - hourly baselines: or usage; always replayed); a seeded sample is realised as "
             "real frames / series pairs (daily, billing: one row per day; hourly: 24 rows per day) in DST-free and DST zones; "
             "non-trivial = the object carries a disqualification",
        assumptions=["first and last day of the span are valid; days before / after them that are present in a frame without usage are not part of the span "
                     "(from_series trims them and the statement demands the same verdict from both entry points): for such frames the length criterion "
                     "and the agreement of the two entry points are judged, nothing else",
                     "the last timestamp's period counts zero: a span of S days has S-1 countable days compared against 0.9*S (the statement's parenthesis)",
                     "monthly rules: a verdict is demanded only where pooling months by number and by (year, month) agree",
                     "exact-threshold cases are realised in DST-free zones (America/Phoenix, Asia/Kolkata); America/Chicago is used away from the thresholds",
                     "billing usage gaps are not generated here (per-period usage is the Resample module's question)"],
        invariants_note="MC config checks oracle self-consistency, Must within May, that each threshold sits exactly where the statement puts it, "
                        "the 329-365 length rule and the validity of generated placements")


def _split():
    return runner.PureSpec(
        prop="C13", module="Split", trace_module="SplitTrace", driver="drivers.split",
        cfg={"quick": "Split_quick.cfg", "thorough": "Split_thorough.cfg"}, sample={"quick": 2500, "thorough": None},
        # routing cases: local midnights west and east of UTC (east of it the UTC date of a local midnight is the day before)
        variants=lambda tier, r, cin: (["-"] if cin["kind"] != "route" else ["America/Chicago", "Asia/Kolkata", "Europe/Berlin"] if tier == "thorough"
                                      else ["America/Chicago", r.choice(["Asia/Kolkata", "Europe/Berlin"])]),
        spec_files=["Split.tla", "SplitDefs.tla", "SplitTrace.tla", "Cal.tla"],
        always=lambda b: 'kind |-> "select"' in b,
        rule="TLC enumerates all 16 allow-flag vectors x season support {0,29,30,200 days} x weekend support {0,7,8,60} (x gaussian reduction), "
             "all 48 split layouts x 3 season maps x 3 weekday maps x every month of a leap and a non-leap year, and five selection datasets; candidate "
             "cases call the real DailyModel._combinations on a meter frame with that support, routing cases predict constructed split documents on "
             "every day of the month, selection cases are real default-profile fits; non-trivial = more than one candidate / component",
        assumptions=["the candidate generator is reached through DailyModel._combinations() on a hand-built df_meter (the fit would take 10 s per support class)",
                     "with gaussian reduction on, only the clauses of the statement are demanded (which splits the ellipsoid test removes is data dependent)",
                     "selection: rank of _combination_selection_criteria over model.combinations, ties share a rank"],
        invariants_note="MC config checks the I-layer theorems: generator = closed form (48 candidates), every kept candidate is an exact cover, the unsplit "
                        "model survives trimming, no kept candidate uses a cleared flag or unsupported data; every date has exactly one route under every layout and map")


def _prep():
    from drivers import prep

    def variants(tier, r, cin):
        return list(prep.VARIANTS) if tier == "thorough" else [r.choice(prep.VARIANTS[:6]), r.choice(prep.VARIANTS[6:10]), r.choice(prep.VARIANTS[10:14]), r.choice(prep.VARIANTS[14:16]), r.choice(prep.VARIANTS[16:])]

    return runner.PureSpec(
        prop="C17", module="Prep", trace_module="PrepTrace", driver="drivers.prep",
        cfg={"quick": "Prep_quick.cfg", "thorough": "Prep_thorough.cfg"}, sample={"quick": 700, "thorough": 6000}, variants=variants,
        spec_files=["Prep.tla", "PrepDefs.tla", "PrepTrace.tla"],
        rule="every pattern of 2 (thorough: 3) consecutive hours over row {present, absent, first of a duplicate} x temperature {value, NaN} x "
             "usage {value, zero, NaN} x irradiance {value, NaN}, electric / gas, with / without irradiance, enumerated by TLC; each is embedded in "
             "real frames of 4 days .. 400 days (ragged first / last day, DST change, leap day, an entirely empty usage column) with background gaps; "
             "the returned frame is compared with the supplied one cell by cell; non-trivial = the pattern contains something other than plain values",
        assumptions=["on-the-hour local input; frames of at least 4 days (the statement's range)",
                     "per-cell rule is scale-free; the autocorrelation fill changes lag windows at 3 days / 3 weeks / 6 weeks, so each pattern is replayed at sizes on both sides",
                     "cells outside the pattern are judged through counters (wrong value, wrong flag, still missing)"],
        invariants_note="MC config checks the oracle's self-consistency and that zero counts as missing only for electricity")


def _metrics():
    def extra(tier):
        import random
        r = common.rng("metrics-long")
        out = []
        for k in range(60 if tier == "quick" else 600):
            n = r.randint(5, 12)
            cell = lambda: {"f": True, "v": r.randint(-3, 6)} if r.random() > 0.05 else {"f": False, "v": 0}
            obs = [cell() for _ in range(n)]
            pred = [cell() for _ in range(n)]
            if sum(1 for a, b in zip(obs, pred) if a["f"] and b["f"]) >= 3:
                out.append(({"kind": "stats", "obs": obs, "pred": pred, "p": r.randint(1, 3), "long": True}, "-"))
        return out

    return runner.PureSpec(
        prop="C16", module="Metrics", trace_module="MetricsTrace", driver="drivers.metrics",
        cfg={"quick": "Metrics_quick.cfg", "thorough": "Metrics_thorough.cfg"}, sample={"quick": 5000, "thorough": 80000}, variants=lambda tier, r, cin: ["-"],
        spec_files=["Metrics.tla", "MetricsDefs.tla", "MetricsTrace.tla", "Rat.tla", "TTable.tla"], extra_cases=extra,
        always=lambda b: 'kind |-> "stats"' not in b or 'drift |-> TRUE' in b,
        rule="TLC enumerates every observed / predicted pair of length 2..3 over small integers with a non-finite marker, parameter counts 1..3, all 1,296 residual patterns of length 4 against a constant observed series (every autocorrelation regime, n' below and above 1; always replayed), the "
             "hourly gate table and 9 stored-metrics cases (real fits of 3 families x 3 baselines); seeded longer integer series (5..12) are added; "
             "every statistic of the real BaselineMetrics / ReportingMetrics is snapped to a rational and compared with Rat.tla arithmetic by TLC",
        assumptions=["square-rooted quantities are compared squared; values are snapped with Fraction.limit_denominator and must be exact to 1e-9",
                     "lag-1 autocorrelation: rho^2 and the sign of rho are decided; n' through ((n-n')/(n+n'))^2 = rho^2",
                     "'undefined' means None or NaN; an infinity is a reported number",
                     "skewness, kurtosis, the t-quantile and the uncertainty polynomial are not in the statement and not checked"],
        invariants_note="MC config checks the identities rmse^2*n = sse, cvrmse^2*mean^2 = rmse^2, adjusted >= plain, 0 <= r^2 <= 1, bias^2 <= mse, mae <= rmse and the gate table")


def _curve():
    def variants(tier, r, cin):
        # ":seg" = the recorded segment limits coincide with the stored balance points (a balance point parked on its bound)
        # ":sorted" / ":reversed" = the same document with the members of every JSON object in another order, read with from_json
        vs = ["daily:America/Chicago", "daily:America/Chicago:seg", "daily:Asia/Kolkata", "billing:America/Chicago", "billing:America/Chicago:seg",
              "daily:America/Chicago:sorted", "daily:America/Chicago:seg:reversed", "billing:America/Chicago:sorted"]
        return vs if tier == "thorough" else [vs[0], vs[1], r.choice(vs[2:5]), r.choice(vs[5:])]

    return runner.PureSpec(
        prop="C11", module="Curve", trace_module="CurveTrace", driver="drivers.curve",
        cfg={"quick": "Curve_quick.cfg", "thorough": "Curve_thorough.cfg"}, sample={"quick": None, "thorough": None}, variants=variants,
        spec_files=["Curve.tla", "CurveDefs.tla", "CurveTrace.tla", "Rat.tla"],
        rule="TLC enumerates the seven model shapes over a grid of balance points, slopes (dyadic rationals) and smoothing fractions; each document "
             "is probed at -60..140 F including the balance points themselves, the shifted balance points and +-1/4 F around them; every document is "
             "loaded with from_dict and predicted through DailyModel and BillingModel; non-trivial = any shape but the flat one",
        assumptions=["documents a fit can emit: balance points inside the recorded outer temperature limits - either well inside the segment limits or exactly on them (variant :seg) -, heating balance point below the cooling one",
                     "unsmoothed sides and the flat part are compared exactly (dyadic inputs); a smoothed side is bounded between its asymptote (the straight "
                     "line through the stored balance point) and the line through the shifted balance point, to 1/1000; how fast it approaches the "
                     "asymptote is not decided",
                     "load additivity is read as 'to 4 ulp' ((m - c) + c is not m in binary64)"],
        invariants_note="MC config checks on the documented formula: bounds ordered and never below the base load, continuity at the flat-part balance "
                        "points, bounds monotone outwards, the flat part is non-empty")


def _fit():
    return runner.PureSpec(
        prop="C12", module="Fit", trace_module="FitTrace", driver="drivers.fit",
        cfg={"quick": "Fit_quick.cfg", "thorough": "Fit_thorough.cfg"}, sample={"quick": None, "thorough": None}, variants=lambda tier, r, cin: ["-"],
        spec_files=["Fit.tla", "FitDefs.tla", "FitTrace.tla"],
        rule="real fits of every (family, profile) x dataset (heating+cooling, other curve, seasonal regimes, closed weekends, flat, heating-only, "
             "cooling-only; thorough adds noisy, outliers, 330 days, balance points near the range ends and the default profile); every candidate "
             "component and every sub-model of the chosen split is projected; non-trivial = the fit has a temperature-dependent component",
        assumptions=["the quantifier over datasets is sampled; the quantifier over optimiser outcomes is exhaustive on the grid of CurveImpl.tla (structural leads)",
                     "relations are evaluated on the exact doubles by drivers/fit.py; curve identity uses max|eval(T) - model| <= 1e-9 x scale",
                     "the raw optimiser vector comes from the guarded hook (OPENDSM_EEMETER_VERIF=1) and is used only to classify a curve mismatch"],
        invariants_note="MC config checks the type table (injective; smooth types are exactly those carrying a k).  The structural I-layer CurveImpl.tla is "
                        "model-checked separately by this check: its violations are counted as leads in the evidence")


def _resample(prop):
    kinds = {"C08": ("billing", "calendar", "dailyreads", "subdaily"), "C09": ("temp",)}[prop]

    def variants(tier, r, cin):
        # "<form>@<zone>": whole-hour-DST zones of both hemispheres (transition at 02:00 local, at 01:00 UTC, southern seasons)
        if cin["kind"] == "billing":
            vs = [f + "@" + z for f in ("baseline", "reporting") for z in ("America/Chicago", "Europe/London")]
        elif cin["kind"] == "dailyreads":
            return [f + "@" + z for f in ("frame", "series", "series-hfeed") for z in ("America/Chicago", "Europe/London", "Australia/Sydney")]
        elif cin["kind"] == "calendar":
            vs = [f + "#" + st + "@" + z for f in ("baseline", "reporting") for st in ("w", "a", "m") for z in ("America/Chicago", "Europe/London")]
            return vs if tier == "thorough" else [r.choice(vs)]
        elif cin["kind"] == "subdaily":
            vs = [f + "@" + z for f in ("nan-cells", "absent-rows") for z in ("America/Chicago", "Europe/London", "Australia/Sydney")]
            vs += ["nan-cells-from7@America/Chicago", "absent-rows-from7@Europe/London"]      # "-from7": the first reading of the frame is at 07:00 local
            if cin["interval"] == 60 and len(cin["missing"]) in (0, 1, 11):
                # "+twin": nine months of readings; the same instants are processed as a meter of a zone without clock changes just before
                tw = ["nan-cells+twin@Europe/London", "nan-cells+twin@America/Chicago"]
                return vs + tw if tier == "thorough" else [vs[0], r.choice(vs[1:]), r.choice(tw)]
        else:
            # "!e0": an electricity meter that reads exactly 0 on the judged day (zero is missing USAGE; the day's temperature is still its mean)
            vs = [f + e + "@" + z for e in ("", "!e0") for f in ("feed-local", "feed-utc", "feed-kolkata") for z in ("America/Chicago", "Europe/London", "Australia/Sydney")]
            if not cin.get("mh", 0) and cin["interval"] == 60:
                vs = vs + [f + "@" + z for f in ("nometer-utc", "nometer-frame7") for z in ("America/Chicago", "Europe/London", "Australia/Sydney")]
            if cin.get("mh", 0):     # zero reads are only placed on calendar-day meters (the per-day counts are read through an internal call whose
                vs = vs[:9]          # frame this harness assembles itself; with usage-less rows off midnight that frame is not the one from_series builds)
                return vs if tier == "thorough" else [vs[0], r.choice(vs[1:])]
            return vs if tier == "thorough" else [vs[0], r.choice(vs[1:9]), r.choice(vs[9:18])] + ([r.choice(vs[18:])] if len(vs) > 18 else [])
        return vs if tier == "thorough" else [vs[0], r.choice(vs[1:])]

    keep = 'pc = "done"'
    return runner.PureSpec(
        prop=prop, module="Resample", trace_module="ResampleTrace", driver="drivers.resample", keep=keep,
        cfg={"quick": "Resample_quick.cfg", "thorough": "Resample_thorough.cfg"}, sample={"quick": None, "thorough": None}, variants=variants,
        spec_files=["Resample.tla", "ResampleDefs.tla", "ResampleTrace.tla", "Rat.tla"],
        case_filter=lambda cin: cin["kind"] in kinds,
        rule="TLC enumerates billing cycles (monthly / bi-monthly) with a period length on both sides of 25 / 35 / 70 days and a 23- or 25-hour day inside a "
             "period, sub-daily meter readings (15 / 30 / 60 min) and temperature feeds (30 / 60 min) on 23 / 24 / 25-hour days with every number of "
             "missing readings (leading block or spread); each is built as real series / frames in America/Chicago and pushed through the billing and "
             "daily data classes; non-trivial = billing case, or at least one missing reading",
        assumptions=["whole-hour DST zone (America/Chicago), timestamps aligned to local midnight / to the reading interval; the final open-ended day is not judged",
                     "amounts are chosen so that per-day values are integers; values are snapped with limit_denominator(5000) and must be exact to 1e-9",
                     "estimated reads (no public input for them in the data classes) are not generated"],
        invariants_note="MC config checks conservation (constant rate x day lengths = amount), monotonicity of the coverage rule, distinct missing indices")


class C20Entry:
    """C20 = Window (TLC-enumerated calls replayed on the real functions) + the calls RECORDED from the repository's own
    tests of the window functions (guarded tracing hook), judged by the same trace specification."""
    MAX_ROWS_QUICK = 2000

    def _recorded(self, tier):
        from drivers import window_repo
        common.setup_env()
        recs, summary = window_repo.record(tlc.workdir("window_repo"))
        cases, skipped = [], []
        for k, r in enumerate(recs):
            c = window_repo.convert(k, r)
            if "skip" in c:
                skipped.append({"test": r.get("test", ""), "why": c["skip"]})
            elif tier == "quick" and len(c["in"]["idx"]) > self.MAX_ROWS_QUICK:
                skipped.append({"test": r.get("test", ""), "why": "series of %d rows: validated in the thorough tier" % len(c["in"]["idx"])})
            else:
                cases.append(c)
        if not cases:
            raise tlc.TLCError("the repository's window tests produced no recorded call (hook not active?): %s" % summary)
        return runner.run_recorded(
            "C20", tier, trace_module="WindowTrace", tag="window_repo_trace", cases=cases, skipped=skipped, summary=summary,
            evidence_suffix="_repotests", spec_files=["WindowDefs.tla", "WindowTrace.tla"], nontrivial=window_repo.nontrivial, module="WindowRepoTests",
            rule="every public call of get_baseline_data / get_reporting_data made by the repository's own tests (tests/test_transform.py, run with "
                 "the guarded tracing hook) is converted to the abstract record (timestamps -> integer seconds, null masks, hashes) and judged "
                 "by WindowTrace.tla; non-trivial = the call cuts rows off or ends in an error",
            assumptions=["recorded calls: unit of the timeline is one second (u = 86400); calls whose input lies outside the abstract input space "
                         "(unsorted / duplicated index, naive limits) are listed as skipped, not judged"])

    def run(self, tier):
        rc1 = runner.run_pure(_window(), tier)
        rc2 = self._recorded(tier)
        runner.merge_evidence("C20", ["C20", "C20_repotests"])
        return 1 if (rc1 or rc2) else 0

    def replay(self, payload):
        if payload.get("recorded"):
            # run the repository tests again on the current tree and judge the calls of the same test
            from . import pure
            from drivers import window_repo
            common.setup_env()
            recs, summary = window_repo.record(tlc.workdir("window_repo"))
            cases = [c for c in (window_repo.convert(k, r) for k, r in enumerate(recs)) if "skip" not in c and c.get("variant") == payload.get("test")]
            rej, _ = pure.validate("WindowTrace", cases, "window_repo_trace") if cases else ({}, 0)
            own = sorted(set(sum(rej.values(), [])))
            if own:
                print("VIOLATION property=C20 replay=(calls recorded from %s) clauses=%s" % (payload.get("test"), ",".join(own)))
            print("C20 replay: %d calls recorded from %s, %d rejected" % (len(cases), payload.get("test"), len(rej)))
            return 1 if own else 0
        return runner.run_pure(_window(), "quick", only_cases=[payload["case"]])

    def selftest(self):
        return runner.selftest_pure(_window())


class C18Entry:
    """C18 = Seg (TLC-enumerated cases on the real functions) + the segment_time_series calls RECORDED from the repository's own
    tests (guarded tracing hook), split per calendar month and judged by the same trace specification."""

    def _recorded(self, tier):
        from drivers import seg_repo
        common.setup_env()
        recs, summary = seg_repo.record(tlc.workdir("seg_repo"))
        cases, skipped = [], []
        for r in recs:
            c = seg_repo.convert(len(cases), r)
            if isinstance(c, dict):
                skipped.append({"test": r.get("test", ""), "why": c["skip"]})
            else:
                cases.extend(c)
        if not cases:
            raise tlc.TLCError("the repository's segmentation tests produced no recorded call (hook not active?): %s" % summary)
        return runner.run_recorded(
            "C18", tier, trace_module="SegTrace", tag="seg_repo_trace", cases=cases, skipped=skipped, summary=summary,
            evidence_suffix="_repotests", spec_files=["SegDefs.tla", "SegTrace.tla"], nontrivial=seg_repo.nontrivial, module="SegRepoTests",
            rule="every public call of segment_time_series made by the repository's own tests (tests/test_segmentation.py, test_caltrack_hourly.py, "
                 "test_caltrack_design_matrices.py, run with the guarded tracing hook) is split into one `weights` case per calendar month its "
                 "index touches and judged by SegTrace.tla; non-trivial = any segment type but `single`",
            assumptions=["recorded calls: with drop_zero_weight_segments the dropped columns are read as zero weight (that is what the option drops); "
                         "calls with an undocumented segment type are listed as skipped, not judged"])

    def run(self, tier):
        rc1 = runner.run_pure(_seg(), tier)
        rc2 = self._recorded(tier)
        runner.merge_evidence("C18", ["C18", "C18_repotests"])
        return 1 if (rc1 or rc2) else 0

    def replay(self, payload):
        if payload.get("recorded"):
            from . import pure
            from drivers import seg_repo
            common.setup_env()
            recs, summary = seg_repo.record(tlc.workdir("seg_repo"))
            cases = []
            for r in recs:
                c = seg_repo.convert(len(cases), r)
                if isinstance(c, list) and r.get("test", "").split(" ")[0] == payload.get("test"):
                    cases.extend(c)
            rej, _ = pure.validate("SegTrace", cases, "seg_repo_trace") if cases else ({}, 0)
            own = sorted(set(sum(rej.values(), [])))
            if own:
                print("VIOLATION property=C18 replay=(calls recorded from %s) clauses=%s" % (payload.get("test"), ",".join(own)))
            print("C18 replay: %d cases recorded from %s, %d rejected" % (len(cases), payload.get("test"), len(rej)))
            return 1 if own else 0
        return runner.run_pure(_seg(), "quick", only_cases=[payload["case"]])

    def selftest(self):
        return runner.selftest_pure(_seg())


class C12Entry:
    def run(self, tier):
        # structural half: the refine / reduce / read-back chain on exact rationals; violations are leads, not verdicts
        res = tlc.run("CurveImpl", "CurveImpl.cfg", "curveimpl", cont=True, timeout=1800)
        leads = len(res.violations) // 2
        rc = runner.run_pure(_fit(), tier)
        import json as _json, os as _os
        path = _os.path.join(common.EVID, "C12.json")
        doc = _json.load(open(path))
        doc["coverage"]["structural_model"] = {"module": "CurveImpl.tla", "raw_vectors": res.distinct // 2, "states": res.distinct,
                                               "curve_identity_leads_in_box": leads, "note": "raw optimiser vectors of the smoothed full model for which the evaluation "
                                               "path and the read-back path reach different pieces (classes: dead side with k, balance point on a bound, crossed)"}
        doc["coverage"]["states"] += res.distinct
        doc["coverage"]["transitions"] += res.generated
        common.write_evidence("C12", doc["tier"], doc["coverage"], doc["wall_s"] + res.wall, doc["violations"], doc["assumptions"])
        print("C12 %s: structural model CurveImpl: %d raw vectors, %d curve-identity leads (information)" % (tier, res.distinct // 2, leads))
        return rc

    def replay(self, payload):
        return runner.run_pure(_fit(), "quick", only_cases=[payload["case"]])

    def selftest(self):
        return runner.selftest_pure(_fit())


class C07Entry:
    """C07 = RowFrame (row-level masking, daily and billing) + the aggregated-column clauses of Agg (billing aggregations)."""
    OWN_AGG = {"ObservedIsSumOfDailyRows", "PredictedIsSumOfDailyRows", "SavingsFromAggregatedColumnsEqualRowwiseSavings", "ObservedColumnKept"}

    def run(self, tier):
        rc1 = runner.run_pure(_rowframe("C07"), tier)
        spec = _agg()
        spec.prop = "C07"
        rc2 = runner.run_pure(spec, tier, evidence_suffix="_agg", owned=self.OWN_AGG)
        runner.merge_evidence("C07", ["C07", "C07_agg"])
        return 1 if (rc1 or rc2) else 0

    def replay(self, payload):
        if payload.get("module") == "Agg":
            spec = _agg()
            spec.prop = "C07"
            return runner.run_pure(spec, "quick", only_cases=[payload["case"]], owned=self.OWN_AGG)
        return runner.run_pure(_rowframe("C07"), "quick", only_cases=[payload["case"]])

    def selftest(self):
        return runner.selftest_pure(_rowframe("C07"))


class C06Entry:
    """C06 = Clock (hourly) + the row-per-timestamp and finiteness clauses of RowFrame (daily, billing)."""

    def run(self, tier):
        rc1 = runner.run_pure(_clock(), tier, evidence_suffix="")
        rc2 = runner.run_pure(_rowframe("C06"), tier, evidence_suffix="_rowframe", owned={"PredictReturns", "OneRowPerInputTimestamp", "PredictedExactlyOnUsableRows"})
        runner.merge_evidence("C06", ["C06", "C06_rowframe"])
        return 1 if (rc1 or rc2) else 0

    def replay(self, payload):
        spec = _clock() if payload.get("module") == "ClockMC" else _rowframe("C06")
        return runner.run_pure(spec, "quick", only_cases=[payload["case"]])

    def selftest(self):
        return runner.selftest_pure(_clock())


class C01Entry:
    """C01 = Lifecycle (round trip: reload, re-serialise, same predictions) + the formula clause (`the stored coefficients are the
    curve that is evaluated`) decided on constructed documents by the Curve module."""
    OWN_CURVE = {"PredictReturns", "StraightLineWithTheFittedSlopeWhenUnsmoothed", "BaseLoadBetweenTheBalancePoints",
                 "SmoothedCurveBetweenAsymptoteAndShiftedLine", "SmoothingFollowsTheExponentialKernel",
                 "StoredAgainItLoads", "StoredAgainItPredictsTheSame", "StoredAgainItIsTheSameDocument"}

    def run(self, tier):
        import json, os
        rc1 = LifeEntry("C01").run(tier)
        spec = _curve()
        spec.prop = "C01"
        rc2 = runner.run_pure(spec, tier, evidence_suffix="_curve", owned=self.OWN_CURVE)
        base_p, part_p = os.path.join(common.EVID, "C01.json"), os.path.join(common.EVID, "C01_curve.json")
        base, part = json.load(open(base_p)), json.load(open(part_p))
        os.remove(part_p)
        cov, c = base["coverage"], part["coverage"]
        cov["formula_stage"] = {"module": c["spec_modules"], "states": c["states"], "transitions": c["transitions"], "calls": c["traces_validated_against_impl"],
                                "distinct_nontrivial": c["distinct_nontrivial"], "rejected": c["rejected_calls"], "rule": c["rule"], "owned_clauses": sorted(self.OWN_CURVE)}
        for k in ("states", "transitions", "traces_validated_against_impl", "evaluations", "distinct_nontrivial"):
            cov[k] += c[k]
        cov["samples"] += c["samples"][:2]
        base["assumptions"] += [a for a in part["assumptions"] if a not in base["assumptions"]]
        common.write_evidence("C01", base["tier"], cov, base["wall_s"] + part["wall_s"], base["violations"] + part["violations"], base["assumptions"])
        return 1 if (rc1 or rc2) else 0

    def replay(self, payload):
        if payload.get("module") == "Curve":
            spec = _curve()
            spec.prop = "C01"
            return runner.run_pure(spec, "quick", only_cases=[payload["case"]], owned=self.OWN_CURVE)
        return LifeEntry("C01").replay(payload)

    def selftest(self):
        return LifeEntry("C01").selftest()


class LifeEntry:
    def __init__(self, prop):
        self.prop = prop

    def run(self, tier):
        from . import life, lifeprops
        return lifeprops.run(self.prop, tier)

    def replay(self, payload):
        from . import lifeprops
        return lifeprops.replay(self.prop, payload)

    def selftest(self):
        from . import lifeprops
        return lifeprops.selftest(self.prop)


_REG = {"C20": lambda: C20Entry(), "C07": lambda: C07Entry(), "C19": lambda: PureEntry(_agg()), "C06": lambda: C06Entry(), "C18": lambda: C18Entry(), "C14": lambda: PureEntry(_settings()), "C10": lambda: PureEntry(_suff()), "C13": lambda: PureEntry(_split()), "C17": lambda: PureEntry(_prep()), "C16": lambda: PureEntry(_metrics()), "C11": lambda: PureEntry(_curve(), foreign={"StoredAgainItLoads", "StoredAgainItPredictsTheSame", "StoredAgainItIsTheSameDocument"}), "C12": lambda: C12Entry(), "C08": lambda: PureEntry(_resample("C08")), "C09": lambda: PureEntry(_resample("C09"))}
for _p in ("C01", "C02", "C03", "C04", "C05"):
    _REG[_p] = (lambda p: (lambda: LifeEntry(p)))(_p)
_REG["C01"] = lambda: C01Entry()


def get(prop):
    if prop not in _REG:
        raise KeyError("no check registered for %s" % prop)
    return _REG[prop]()
