"""Property id -> check entry."""
from __future__ import annotations

from . import common, runner


class PureEntry:
    def __init__(self, spec: runner.PureSpec):
        self.spec = spec

    def run(self, tier):
        return runner.run_pure(self.spec, tier)

    def replay(self, payload):
        return runner.run_pure(self.spec, "quick", only_cases=[payload["case"]])

    def selftest(self):
        return runner.selftest_pure(self.spec)


def _window():
    from drivers import window

    def variants(tier, r, cin):
        return list(window.SHAPES) if tier == "thorough" else [r.choice(window.SHAPES)]

    def drift(spec_out, code_out):
        if spec_out["res"] != code_out["res"]:
            return False
        return spec_out["res"] != "ok" or (spec_out["oidx"] == code_out["oidx"] and sorted(spec_out["warns"]) == sorted(code_out["warns"]))

    return runner.PureSpec(
        prop="C20", module="Window", trace_module="WindowTrace", driver="drivers.window",
        cfg={"quick": "Window_quick.cfg", "thorough": "Window_thorough.cfg"},
        sample={"quick": 12000, "thorough": 150000}, variants=variants, drift=drift,
        spec_files=["Window.tla", "WindowDefs.tla", "WindowTrace.tla"],
        rule="every abstract call (index of <= MaxLen instants, null pattern, limits on/between/outside the instants, max_days, "
             "overshoot, ignore-gap, overshoot days; baseline and reporting) enumerated by TLC; a seeded sample of the dumped states is "
             "realised on the real functions in 4 series shapes; non-trivial = the call cuts rows off or ends in an error",
        assumptions=["abstract timeline is scale-free: integer instants are realised as 1-, 2- and 30-day steps in UTC, America/Chicago and Asia/Kolkata",
                     "reading: with overshoot the soft limit may move to the nearest boundary and its gap warning is not demanded; with "
                     "ignore_billing_period_gap_for_day_count the hard-limit gap warning is not demanded (pinned by tests/test_transform.py)",
                     "reading: a selected window whose rows are all null may raise the dedicated error or be returned",
                     "the verdict is TLC's evaluation of WindowDefs!Clauses on the recorded projection; the driver only measures"],
        invariants_note="MC config also checks NoLeakI (the I-layer never leaks) and POracleTotal; `lead` records P-clauses the I-layer fails")


class LifeEntry:
    def __init__(self, prop):
        self.prop = prop

    def run(self, tier):
        from . import life, lifeprops
        return lifeprops.run(self.prop, tier)

    def replay(self, payload):
        from . import lifeprops
        return lifeprops.replay(self.prop, payload)

    def selftest(self):
        from . import lifeprops
        return lifeprops.selftest(self.prop)


_REG = {"C20": lambda: PureEntry(_window())}
for _p in ("C01", "C02", "C03", "C04", "C05"):
    _REG[_p] = (lambda p: (lambda: LifeEntry(p)))(_p)


def get(prop):
    if prop not in _REG:
        raise KeyError("no check registered for %s" % prop)
    return _REG[prop]()
