"""Property-level orchestration for pure modules, verdict handling and evidence."""
from __future__ import annotations

import hashlib
import importlib
import json
import os
import sys
from collections import Counter

from . import common, pure, tlc


class PureSpec:
    def __init__(self, prop, module, trace_module, driver, cfg, sample, variants, assumptions, rule,
                 keep='pc = "done"', spec_files=None, drift=None, invariants_note="", extra_cases=None, in_field="in", always=None, case_filter=None):
        self.prop = prop
        self.module = module
        self.trace_module = trace_module
        self.driver = driver
        self.cfg = cfg                  # {"quick": cfg, "thorough": cfg}
        self.sample = sample            # {"quick": n | None, ...}
        self.variants = variants        # fn(tier, rng, case_in) -> list of variant tags
        self.assumptions = assumptions
        self.rule = rule
        self.keep = keep
        self.spec_files = spec_files or []
        self.drift = drift
        self.invariants_note = invariants_note
        self.extra_cases = extra_cases
        self.in_field = in_field        # which state variable is handed to the driver
        self.always = always            # dump blocks that are never sampled away
        self.case_filter = case_filter  # restrict the dumped states to those this property owns  # fn(tier) -> list of (case_in, variant): cases beyond the dumped graph (real sizes)


def _spec_key(files):
    h = hashlib.sha256()
    for f in sorted(files):
        with open(os.path.join(tlc.SPEC, f), "rb") as fh:
            h.update(f.encode())
            h.update(fh.read())
    return h.hexdigest()[:16]


def model_stage(spec: PureSpec, tier):
    """TLC over the bounded space.  The result depends only on /verif/spec, so it is cached by the spec files' hash."""
    tag = "%s_mc_%s" % (spec.module.lower(), tier)
    wd = tlc.workdir(tag)
    files = list(spec.spec_files) + [spec.cfg[tier]]
    key = _spec_key(files)
    meta = os.path.join(wd, "model.json")
    if os.path.exists(meta):
        try:
            m = json.load(open(meta))
            if m.get("key") == key and os.path.exists(m["dump"]):
                m["cached"] = True
                return m
        except Exception:
            pass
    res = tlc.run(spec.module, spec.cfg[tier], tag, dump=True, coverage=True)
    if res.violations:
        raise tlc.TLCError("specification theorems violated in %s/%s: %s (see %s/tlc.out)" % (spec.module, spec.cfg[tier], res.violations[:3], wd))
    dead = [a for a, (d, t) in res.coverage.items() if t == 0]
    if dead:
        raise tlc.TLCError("vacuity: actions never taken in %s: %s" % (spec.module, dead))
    m = {"key": key, "dump": res.dump, "generated": res.generated, "distinct": res.distinct, "depth": res.depth,
         "coverage": {a: list(v) for a, v in res.coverage.items()}, "wall": res.wall, "cached": False}
    json.dump(m, open(meta, "w"))
    return m


def run_pure(spec: PureSpec, tier: str, only_cases=None, evidence_suffix="", owned=None) -> int:
    t = common.Timer()
    common.setup_env()
    prop = spec.prop
    model = model_stage(spec, tier)
    if only_cases is None:
        states, total = pure.select_states(model["dump"], spec.sample[tier], prop, keep=lambda b: spec.keep in b, always=spec.always)
        if spec.case_filter is not None:
            states = [s for s in states if spec.case_filter(s[spec.in_field])]
        leads = Counter()
        for s in states:
            for c in s.get("lead", []):
                leads[c] += 1
        r = common.rng("variants", prop)
        jobs = []
        for s in states:
            for v in spec.variants(tier, r, s[spec.in_field]):
                jobs.append((len(jobs), s[spec.in_field], v))
        if spec.extra_cases:
            for cin, v in spec.extra_cases(tier):
                jobs.append((len(jobs), cin, v))
    else:
        states, total, leads = [], 0, Counter()
        jobs = [(i, c["in"], c.get("variant")) for i, c in enumerate(only_cases)]
    cases = pure.replay(spec.driver, jobs)
    rejects, tstates = pure.validate(spec.trace_module, cases, "%s_trace" % spec.module.lower())
    drv = importlib.import_module(spec.driver)
    # drift against the I-layer outcome (information only)
    drift = 0
    if spec.drift and only_cases is None:
        by_in = {json.dumps(s[spec.in_field], sort_keys=True): s for s in states}
        for c in cases:
            s = by_in.get(json.dumps(c["in"], sort_keys=True))
            if s is not None and not spec.drift(s["out"], c["out"]):
                drift += 1
                if drift <= 3:
                    print("MODEL-DRIFT module=%s case=%s spec_out=%s code_out=%s" % (spec.module, json.dumps(c["in"], sort_keys=True), json.dumps(s["out"], sort_keys=True), json.dumps(c["out"], sort_keys=True)))
        if drift:
            print("MODEL-DRIFT module=%s total=%d of %d replayed cases (information for the spec maintainer, not a verdict)" % (spec.module, drift, len(cases)))
    findings = common.Findings()
    nviol = 0
    viol_by_clause = Counter()
    foreign = Counter()
    for c in cases:
        if c["id"] not in rejects:
            continue
        unknown = []
        for clause in rejects[c["id"]]:
            if owned is not None and clause not in owned:
                foreign[clause] += 1
                continue
            if findings.match(prop, clause, c) is None:
                unknown.append(clause)
        if unknown:
            nviol += 1
            for cl in unknown:
                viol_by_clause[cl] += 1
            if nviol <= 10:
                path = common.write_replay(prop, nviol, {"property": prop, "module": spec.module, "failing_clauses": unknown, "case": c})
                print("VIOLATION property=%s replay=%s clauses=%s" % (prop, path, ",".join(unknown)))
    findings.report()
    for cl, n in foreign.items():
        print("FOREIGN-REJECTION clause=%s count=%d (owned by another property's check of the same module, not a verdict for %s)" % (cl, n, prop))
    if nviol > 10:
        print("... %d further rejected calls not listed; by clause: %s" % (nviol - 10, dict(viol_by_clause)))
    nontrivial = set()
    for c in cases:
        if drv.nontrivial(c["in"], c["out"]):
            nontrivial.add(json.dumps(c["in"], sort_keys=True))
    samples = [{"abstract_in": c["in"], "variant": c.get("variant"), "projected_out": c["out"], "verdict": "rejected" if c["id"] in rejects else "accepted"} for c in cases[:: max(1, len(cases) // 5)][:5]]
    cov = {
        "states": model["distinct"], "transitions": model["generated"],
        "traces_validated_against_impl": len(cases), "samples": samples,
        "evaluations": len(cases), "distinct_nontrivial": len(nontrivial),
        "rule": spec.rule, "exhaustive": bool(only_cases is None and spec.sample[tier] is None),
        "abstract_states_available": total, "abstract_states_replayed": len(states),
        "trace_spec_states": tstates, "tlc_depth": model["depth"], "action_coverage": model["coverage"],
        "model_stage_cached": model.get("cached", False), "tlc_model_wall_s": round(model["wall"], 1),
        "i_layer_leads_by_clause": dict(leads), "model_drift_cases": drift,
        "rejected_calls": len(rejects), "rejected_known_findings": len(rejects) - nviol, "violations_by_clause": dict(viol_by_clause),
        "spec_modules": spec.spec_files, "config": spec.cfg[tier], "note": spec.invariants_note,
    }
    if only_cases is None:
        common.write_evidence(prop + evidence_suffix, tier, cov, t(), nviol, spec.assumptions)
    print("%s %s: model %d states (%s), %d calls replayed, %d rejected (%d known), %d violations, %.1fs" % (
        prop, tier, model["distinct"], "cached" if model.get("cached") else "%.0fs" % model["wall"], len(cases), len(rejects), len(rejects) - nviol, nviol, t()))
    return 1 if nviol else 0


def selftest_pure(spec: PureSpec, tier="quick") -> int:
    """Binding test: take accepted recorded calls, corrupt one projected field at a time and require TLC to reject each."""
    common.setup_env()
    model = model_stage(spec, tier)
    states, _ = pure.select_states(model["dump"], 400 if spec.case_filter is None else None, spec.prop + "selftest", keep=lambda b: spec.keep in b)
    if spec.case_filter is not None:
        states = [s for s in states if spec.case_filter(s[spec.in_field])][:400]
    r = common.rng("selftest", spec.prop)
    jobs = [(i, s[spec.in_field], spec.variants("quick", r, s[spec.in_field])[0]) for i, s in enumerate(states)]
    cases = pure.replay(spec.driver, jobs)
    rejects, _ = pure.validate(spec.trace_module, cases, "%s_selftest" % spec.module.lower())
    good = [c for c in cases if c["id"] not in rejects]
    drv = importlib.import_module(spec.driver)
    corrupted = []
    kinds = Counter()
    for c in good:
        for name, out2 in drv.corruptions(c["in"], c["out"]):
            corrupted.append({"id": len(corrupted), "in": c["in"], "out": out2, "kind": name})
            kinds[name] += 1
    rej2, _ = pure.validate(spec.trace_module, corrupted, "%s_selftest" % spec.module.lower())
    missed = [c for c in corrupted if c["id"] not in rej2]
    missed_kinds = Counter(c["kind"] for c in missed)
    print("SELFTEST %s: %d accepted calls, %d corruptions (%s), %d rejected, %d not rejected (%s)" % (
        spec.prop, len(good), len(corrupted), dict(kinds), len(rej2), len(missed), dict(missed_kinds)))
    for c in missed[:3]:
        print("SELFTEST-NOT-REJECTED (admissible under a disjunctive reading?)", json.dumps(c)[:400])
    # a corruption may land on another admissible outcome where the P-layer is a disjunction of readings; the binding is
    # considered broken when some kind of corruption is never rejected or more than 10% of all corruptions pass
    blind = [k for k in kinds if missed_kinds.get(k, 0) == kinds[k]]
    ok = bool(corrupted) and not blind and len(missed) * 10 <= len(corrupted)
    if not ok:
        print("SELFTEST-FAILED %s blind_kinds=%s" % (spec.prop, blind))
    return 0 if ok else 2


def merge_evidence(prop, parts):
    """Combine the evidence files of several stages of one property into /verif/evidence/<prop>.json"""
    import os
    docs = []
    for p in parts:
        path = os.path.join(common.EVID, p + ".json")
        docs.append(json.load(open(path)))
        if p != prop:
            os.remove(path)
    base = docs[0]
    cov = base["coverage"]
    cov["stages"] = []
    for d in docs:
        c = d["coverage"]
        cov["stages"].append({"module": c["spec_modules"], "states": c["states"], "transitions": c["transitions"], "calls": c["traces_validated_against_impl"],
                              "distinct_nontrivial": c["distinct_nontrivial"], "rejected": c["rejected_calls"], "rule": c["rule"]})
    for d in docs[1:]:
        c = d["coverage"]
        for k in ("states", "transitions", "traces_validated_against_impl", "evaluations", "distinct_nontrivial"):
            cov[k] += c[k]
        cov["samples"] += c["samples"][:2]
        base["assumptions"] += [a for a in d["assumptions"] if a not in base["assumptions"]]
        base["wall_s"] += d["wall_s"]
        base["violations"] += d["violations"]
    base["property_id"] = prop
    common.write_evidence(prop, base["tier"], cov, base["wall_s"], base["violations"], base["assumptions"])


def run_recorded(prop, tier, *, trace_module, tag, cases, skipped, summary, rule, assumptions, spec_files, nontrivial, evidence_suffix, module="recorded"):
    """Judge calls that were RECORDED from executions the harness did not script (the repository's own tests run with the
    tracing hook on) against a trace specification; same verdict protocol as run_pure."""
    t = common.Timer()
    rejects, tstates = pure.validate(trace_module, cases, tag)
    findings = common.Findings()
    nviol = 0
    viol_by_clause = Counter()
    for c in cases:
        if c["id"] not in rejects:
            continue
        unknown = [cl for cl in rejects[c["id"]] if findings.match(prop, cl, c) is None]
        if unknown:
            nviol += 1
            for cl in unknown:
                viol_by_clause[cl] += 1
            if nviol <= 10:
                path = common.write_replay(prop, 100 + nviol, {"property": prop, "module": module, "failing_clauses": unknown, "recorded": True,
                                                               "test": c.get("variant"), "case": {k: c[k] for k in ("id", "in", "out", "variant")}})
                print("VIOLATION property=%s replay=%s clauses=%s recorded_from=%s" % (prop, path, ",".join(unknown), c.get("variant")))
    findings.report()
    cov = {"states": tstates, "transitions": tstates, "traces_validated_against_impl": len(cases),
           "samples": [{"recorded_from": c.get("variant"), "abstract_in": {k: (v if not isinstance(v, list) or len(v) <= 12 else "[%d values]" % len(v)) for k, v in c["in"].items()},
                        "projected_out": {k: (v if not isinstance(v, list) or len(v) <= 12 else "[%d values]" % len(v)) for k, v in c["out"].items()},
                        "verdict": "rejected" if c["id"] in rejects else "accepted"} for c in cases[:3]],
           "evaluations": len(cases), "distinct_nontrivial": sum(1 for c in cases if nontrivial(c["in"], c["out"])), "rule": rule, "exhaustive": False,
           "recorded_calls_skipped": skipped, "pytest_summary": summary, "trace_spec_states": tstates, "rejected_calls": len(rejects),
           "rejected_known_findings": len(rejects) - nviol, "violations_by_clause": dict(viol_by_clause), "spec_modules": spec_files}
    common.write_evidence(prop + evidence_suffix, tier, cov, t(), nviol, assumptions)
    print("%s %s: %d calls recorded from the repository's own tests (%s), %d not judged here (see evidence), %d rejected (%d known), %d violations, %.1fs" % (
        prop, tier, len(cases), summary, len(skipped), len(rejects), len(rejects) - nviol, nviol, t()))
    return 1 if nviol else 0
