"""C03 multi-process schedules: TLC enumerates them (Schedule.tla), each becomes a script over cold worker processes."""
from __future__ import annotations

import json
import os

from . import common, pure, runner, tlc

METERS = {1: "b:good", 2: "b:other", 3: "b:east"}
REPORT = {"b:good": "r:wmonth:orig", "b:other": "r:wmonth:orig", "b:east": "r:weast:orig"}


def _model(tier):
    spec = runner.PureSpec(prop="C03", module="Schedule", trace_module=None, driver=None,
                           cfg={"quick": "Schedule_quick.cfg", "thorough": "Schedule_thorough.cfg"}, sample=None, variants=None,
                           assumptions=None, rule=None, spec_files=["Schedule.tla"])
    # every schedule is an initial state; Next is the only action
    tag_model = runner.model_stage(spec, tier)
    return tag_model


def jobs(tier):
    m = _model(tier)
    scheds, total = pure.select_states(m["dump"], None, "sched", keep=lambda b: "result = (1 :> <<\"none\">> @@ 2 :> <<\"none\">> @@ 3 :> <<\"none\">>)" in b or "pos = <<0" in b)
    scheds = [s["sched"] for s in scheds if all(p == 0 for p in s["pos"])]
    fams = [("daily", "legacy"), ("hourly", "default"), ("hourly", "supp")] if tier == "quick" else [("daily", "legacy"), ("hourly", "default"), ("hourly", "supp"), ("billing", "billing"), ("daily", "current"), ("hourly", "robust"), ("caltrack", "caltrack")]
    n = 3 if tier == "quick" else 12
    out = []
    for fam, prof in fams:
        r = common.rng("sched", fam, prof)
        chosen = r.sample(scheds, min(n if fam != "caltrack" else 2, len(scheds)))      # a CalTRACK fit takes 10-40 s
        # always include the two extremes: one worker doing everything, one worker per meter
        ones = [s for s in scheds if len(s) == 1]
        threes = [s for s in scheds if len(s) == 3]
        chosen = chosen + [r.choice(ones), r.choice(threes)]
        for ks, s in enumerate(chosen):
            seed = ks % 2          # the boundary value 0 is a valid explicit seed
            script = []
            for i, w in enumerate(s):
                p = "w%d" % (i + 1)
                script.append({"op": "start", "p": p, "cold": True, "threads": w["threads"]})
                if w["warm"] != "none":
                    script.append({"op": "other", "p": p, "k": w["warm"], "fam": fam})
                for mi in w["meters"]:
                    b = METERS[mi]
                    slot = "s%d" % mi
                    script.append({"op": "make", "p": p, "d": b, "fam": fam, "kind": "baseline", "name": b.split(":")[1], "supp": prof == "supp"})
                    script.append({"op": "new", "p": p, "s": slot, "fam": fam, "prof": prof, "seed": seed})
                    script.append({"op": "fit", "p": p, "s": slot, "d": b, "ign": True})
                    if fam == "caltrack":
                        script.append({"op": "save", "p": p, "s": slot})
                    rr = REPORT[b]
                    script.append({"op": "make", "p": p, "d": rr, "fam": fam, "kind": "reporting", "name": rr.split(":")[1], "obs": "orig", "supp": prof == "supp"})
                    script.append({"op": "predict", "p": p, "s": slot, "d": rr, "ign": True, "agg": "None"})
            out.append({"hist": script, "abstract": s, "scenario": "schedule", "fam": fam, "prof": prof, "remote": True})
    jobs.stats = {"schedules_enumerated_by_tlc": len(scheds), "states": m["distinct"], "transitions": m["generated"]}
    return out
