"""A small parser for TLA+ values as printed by TLC (state dumps, simulation files, PrintT output)."""
from __future__ import annotations


class ModelValue(str):
    """A TLC model value / bare identifier."""

    def __repr__(self):
        return "MV(%s)" % str.__repr__(self)


class ParseError(Exception):
    pass


class _P:
    def __init__(self, s: str, pos: int = 0):
        self.s = s
        self.i = pos
        self.n = len(s)

    def ws(self):
        s, n = self.s, self.n
        while self.i < n and s[self.i] in " \t\r\n":
            self.i += 1

    def peek(self, k=1):
        return self.s[self.i:self.i + k]

    def expect(self, tok):
        self.ws()
        if not self.s.startswith(tok, self.i):
            raise ParseError("expected %r at %d: %r" % (tok, self.i, self.s[self.i:self.i + 40]))
        self.i += len(tok)

    def value(self):
        self.ws()
        s = self.s
        c = s[self.i] if self.i < self.n else ""
        if c == '"':
            return self.string()
        if c == "<" and self.peek(2) == "<<":
            self.i += 2
            items = self.items(">>")
            return tuple(items)
        if c == "{":
            self.i += 1
            items = self.items("}")
            try:
                return frozenset(items)
            except TypeError:
                return tuple(items)
        if c == "[":
            self.i += 1
            self.ws()
            if self.peek(1) == "]":
                self.i += 1
                return {}
            rec = {}
            while True:
                self.ws()
                j = self.i
                while self.i < self.n and (s[self.i].isalnum() or s[self.i] == "_"):
                    self.i += 1
                key = s[j:self.i]
                self.expect("|->")
                rec[key] = self.value()
                self.ws()
                if self.peek(1) == ",":
                    self.i += 1
                    continue
                self.expect("]")
                return rec
        if c == "(":
            self.i += 1
            fn = {}
            while True:
                k = self.value()
                self.expect(":>")
                v = self.value()
                fn[k] = v
                self.ws()
                if self.peek(2) == "@@":
                    self.i += 2
                    continue
                self.expect(")")
                return fn
        if c == "-" or c.isdigit():
            j = self.i
            self.i += 1
            while self.i < self.n and s[self.i].isdigit():
                self.i += 1
            v = int(s[j:self.i])
            if self.peek(2) == "..":
                self.i += 2
                w = self.value()
                return frozenset(range(v, w + 1))
            return v
        if c.isalpha() or c == "_":
            j = self.i
            while self.i < self.n and (s[self.i].isalnum() or s[self.i] == "_"):
                self.i += 1
            w = s[j:self.i]
            if w == "TRUE":
                return True
            if w == "FALSE":
                return False
            return ModelValue(w)
        raise ParseError("unexpected %r at %d: %r" % (c, self.i, s[self.i:self.i + 40]))

    def items(self, close):
        out = []
        self.ws()
        if self.s.startswith(close, self.i):
            self.i += len(close)
            return out
        while True:
            out.append(self.value())
            self.ws()
            if self.peek(1) == ",":
                self.i += 1
                continue
            self.expect(close)
            return out

    def string(self):
        s = self.s
        assert s[self.i] == '"'
        self.i += 1
        buf = []
        while True:
            c = s[self.i]
            if c == "\\":
                nxt = s[self.i + 1]
                buf.append({"n": "\n", "t": "\t"}.get(nxt, nxt))
                self.i += 2
            elif c == '"':
                self.i += 1
                return "".join(buf)
            else:
                buf.append(c)
                self.i += 1


def parse_value(text: str):
    p = _P(text)
    v = p.value()
    p.ws()
    if p.i != p.n:
        raise ParseError("trailing text at %d: %r" % (p.i, text[p.i:p.i + 40]))
    return v


def parse_state(block: str) -> dict:
    """Parse a `/\\ var = value` conjunction list (one state)."""
    p = _P(block)
    out = {}
    while True:
        p.ws()
        if p.i >= p.n:
            return out
        if p.peek(2) == "/\\":
            p.i += 2
        p.ws()
        j = p.i
        while p.i < p.n and (p.s[p.i].isalnum() or p.s[p.i] == "_"):
            p.i += 1
        name = p.s[j:p.i]
        if not name:
            raise ParseError("no variable name at %d: %r" % (p.i, p.s[p.i:p.i + 40]))
        p.expect("=")
        out[name] = p.value()


def parse_dump(path: str):
    """Yield one dict per state of a `tlc -dump` file."""
    with open(path) as f:
        buf = []
        for line in f:
            if line.startswith("State "):
                if buf:
                    yield parse_state("".join(buf))
                buf = []
            elif line.strip():
                buf.append(line)
        if buf:
            yield parse_state("".join(buf))


def to_json(v):
    """Convert a parsed TLA+ value to plain JSON-able python (sets -> sorted lists, tuples -> lists)."""
    if isinstance(v, (bool, int)):
        return v
    if isinstance(v, str):
        return str(v)
    if isinstance(v, (tuple, list)):
        return [to_json(x) for x in v]
    if isinstance(v, frozenset):
        return sorted((to_json(x) for x in v), key=lambda x: (str(type(x)), str(x)))
    if isinstance(v, dict):
        if v and all(isinstance(k, int) for k in v) and sorted(v) == list(range(1, len(v) + 1)):
            return [to_json(v[k]) for k in sorted(v)]
        return {str(k): to_json(x) for k, x in v.items()}
    raise TypeError(type(v))
