"""Run TLC and parse what it prints.  Machinery failures raise TLCError (-> exit 2 in the CLI)."""
from __future__ import annotations

import os
import re
import shutil
import subprocess
import time

from . import tlaval

VERIF = os.path.dirname(os.path.dirname(os.path.abspath(__file__)))
SPEC = os.path.join(VERIF, "spec")
WORK = os.path.join(VERIF, ".work")
JAR_CP = "/opt/veriftools/tla/tla2tools.jar:/opt/veriftools/tla/CommunityModules-deps.jar"


class TLCError(Exception):
    pass


class TLCResult:
    def __init__(self):
        self.generated = 0
        self.distinct = 0
        self.depth = 0
        self.out = ""
        self.rc = 0
        self.wall = 0.0
        self.violations = []      # names of violated invariants/properties (model runs)
        self.coverage = {}        # action name -> (distinct, total) when -coverage was on
        self.printed = []         # parsed values printed with PrintT
        self.dump = None

    @property
    def ok(self):
        return self.rc == 0 and not self.violations


_RE_STATS = re.compile(r"(\d+) states generated, (\d+) distinct states found")
_RE_DEPTH = re.compile(r"The depth of the complete state graph search is (\d+)")
_RE_INV = re.compile(r"Invariant (\S+) is violated|Action property (\S+) is violated|Temporal properties were violated|Assumption .* is false")
_RE_COV = re.compile(r"^<(\w+) line \d+, col \d+ to line \d+, col \d+ of module (\w+)>: (\d+):(\d+)", re.M)


def workdir(tag: str) -> str:
    d = os.path.join(WORK, tag)
    os.makedirs(d, exist_ok=True)
    return d


def run(module: str, cfg: str, tag: str, *, workers: int | str = "auto", dump: bool = False, coverage: bool = False,
        cont: bool = False, env: dict | None = None, timeout: int = 3600, simulate: str | None = None,
        depth: int | None = None, seed: int | None = None, deadlock: bool = False, extra: list | None = None,
        java_props: list | None = None) -> TLCResult:
    """module: file name under spec/ (without .tla); cfg: file name under spec/."""
    wd = workdir(tag)
    meta = os.path.join(wd, "meta")
    shutil.rmtree(meta, ignore_errors=True)
    jtmp = os.path.join(wd, "jtmp")       # TLC's own scratch directories (tlc-<n>) stay out of /tmp and are removed after the run
    shutil.rmtree(jtmp, ignore_errors=True)
    os.makedirs(jtmp, exist_ok=True)
    cmd = ["java", "-XX:+UseParallelGC", "-Xss16m", "-Djava.io.tmpdir=" + jtmp] + (java_props or []) + ["-cp", JAR_CP, "tlc2.TLC",
           "-workers", str(workers), "-metadir", meta, "-noGenerateSpecTE", "-config", os.path.join(SPEC, cfg)]
    if not deadlock:
        cmd += ["-deadlock"]          # "-deadlock" DISABLES deadlock checking in TLC
    res = TLCResult()
    if dump:
        res.dump = os.path.join(wd, "states")
        cmd += ["-dump", res.dump]
        res.dump += ".dump"
        if os.path.exists(res.dump):
            os.remove(res.dump)
    if coverage:
        cmd += ["-coverage", "1"]
    if cont:
        cmd += ["-continue"]
    if simulate:
        cmd += ["-simulate", simulate]
    if depth is not None:
        cmd += ["-depth", str(depth)]
    if seed is not None:
        cmd += ["-seed", str(seed)]
    cmd += (extra or [])
    cmd += [os.path.join(SPEC, module + ".tla")]
    e = dict(os.environ)
    e.update(env or {})
    t0 = time.time()
    try:
        p = subprocess.run(cmd, cwd=wd, env=e, stdout=subprocess.PIPE, stderr=subprocess.STDOUT, text=True, timeout=timeout)
    except subprocess.TimeoutExpired as ex:
        raise TLCError("TLC timed out after %ss on %s/%s" % (timeout, module, cfg)) from ex
    res.wall = time.time() - t0
    shutil.rmtree(jtmp, ignore_errors=True)
    res.out = p.stdout
    res.rc = p.returncode
    with open(os.path.join(wd, "tlc.out"), "w") as f:
        f.write(res.out)
    m = None
    for m in _RE_STATS.finditer(res.out):
        pass
    if m:
        res.generated, res.distinct = int(m.group(1)), int(m.group(2))
    m = _RE_DEPTH.search(res.out)
    if m:
        res.depth = int(m.group(1))
    for m in _RE_INV.finditer(res.out):
        res.violations.append(m.group(1) or m.group(2) or m.group(0))
    if coverage:
        for m in _RE_COV.finditer(res.out):
            res.coverage[m.group(1)] = (int(m.group(3)), int(m.group(4)))
    # hard errors (parse errors, evaluation errors, overflow) are machinery failures
    if re.search(r"Parsing or semantic analysis failed|TLC threw an unexpected exception|Error: TLC|"
                 r"Error: Evaluating|Error: The |Error: In evaluation|Error: Attempted|overflow|"
                 r"java\.lang\.\w+(Error|Exception)", res.out) and not res.violations:
        raise TLCError("TLC failed on %s/%s (see %s/tlc.out):\n%s" % (module, cfg, wd, _tail(res.out)))
    if res.rc not in (0, 12, 13) and not res.violations:
        raise TLCError("TLC exit code %d on %s/%s (see %s/tlc.out):\n%s" % (res.rc, module, cfg, wd, _tail(res.out)))
    return res


def _tail(s, n=40):
    return "\n".join(s.splitlines()[-n:])


def printed_values(out: str):
    """Values printed by PrintT (we only ever print tuples <<...>>); TLC wraps long values over several lines."""
    vals = []
    buf = None
    for line in out.splitlines():
        if buf is None:
            if line.startswith("<<"):
                buf = line
            else:
                continue
        else:
            buf += "\n" + line
        if buf.count("<<") <= buf.count(">>") and buf.count("{") <= buf.count("}") and buf.count("[") <= buf.count("]"):
            try:
                vals.append(tlaval.parse_value(buf.strip()))
            except tlaval.ParseError:
                pass
            buf = None
        elif buf.count("\n") > 200:
            buf = None
    return vals


def dump_states(res: TLCResult):
    if not res.dump or not os.path.exists(res.dump):
        raise TLCError("no dump file produced")
    return tlaval.parse_dump(res.dump)
