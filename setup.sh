#!/bin/sh
# Offline setup: check the tools, parse every specification module, warm the private numba cache.
set -e
cd "$(dirname "$0")"
mkdir -p .work/numba_cache .work/replay evidence
test -x /venv/bin/python || { echo "missing /venv/bin/python"; exit 1; }
test -f /opt/veriftools/tla/tla2tools.jar || { echo "missing tla2tools.jar"; exit 1; }
for f in spec/*.tla; do
  ( cd spec && java -cp /opt/veriftools/tla/tla2tools.jar:/opt/veriftools/tla/CommunityModules-deps.jar tla2sany.SANY "$(basename "$f")" ) > .work/sany.out 2>&1 \
    || { echo "SANY failed on $f"; cat .work/sany.out; exit 1; }
  if grep -qi "errors while parsing\|\*\*\* Errors" .work/sany.out; then echo "SANY reported errors on $f"; cat .work/sany.out; exit 1; fi
done
PYTHONHASHSEED=0 NUMBA_CACHE_DIR="$PWD/.work/numba_cache" /venv/bin/python tools/warm.py
echo "setup ok"
