--------------------------------- MODULE Agg ---------------------------------
(* Bounded enumeration of reporting layouts for C19: start date, span, gap      *)
(* pattern, observed pattern and aggregation argument.  The day rows are        *)
(* generated from the layout with the civil calendar of Cal.tla; the action     *)
(* applies the P-layer's expected aggregation.  Theorems guard the oracle:      *)
(* totals are equal at every aggregation level and the number of periods is     *)
(* what the calendar says.                                                      *)
EXTENDS AggDefs, Cal
CONSTANTS Starts, Spans, Gaps, ObsPats, Aggs
VARIABLES lay, in, out, pc
vars == <<lay, in, out, pc>>
StartsQuick == {<<2019, 12, 1>>, <<2020, 1, 15>>, <<2020, 2, 29>>, <<2021, 1, 31>>}
StartsThorough == StartsQuick \cup {<<2019, 2, 28>>, <<2020, 10, 20>>, <<2020, 3, 8>>, <<2019, 6, 30>>}
P(v) == [h |-> TRUE, v |-> v]
N0 == [h |-> FALSE, v |-> 0]
Pos(x) == IF x > 0 THEN x ELSE 0
Curve(t) == 10 + Pos(50 - t) + 2 * Pos(t - 60)
\* which days have no temperature (hence no prediction)
Missing(gap, i, n, date) ==
  CASE gap = "none" -> FALSE
    [] gap = "every5th" -> i % 5 = 0
    [] gap = "secondMonth" -> FALSE          \* decided on the month, see DayRow
    [] gap = "firstWeek" -> i <= 7
DayRow(l, i, date, mi0) ==
  LET miss == Missing(l.gap, i, l.n, date) \/ (l.gap = "secondMonth" /\ MonthIndex(date) = mi0 + 1)
      t == 30 + ((7 * i) % 50)
      hasO == l.obs # "absent" /\ ~(l.obs = "thirdMissing" /\ i % 3 = 0)
      usable == ~miss /\ (l.obs # "absent" => hasO)
  IN [mi |-> MonthIndex(date), temp |-> IF miss THEN N0 ELSE P(t),
      pred |-> IF usable THEN P(Curve(t)) ELSE N0, obs |-> IF usable /\ l.obs # "absent" THEN P(5) ELSE N0,
      heat |-> IF usable THEN P(Pos(50 - t)) ELSE N0, cool |-> IF usable THEN P(2 * Pos(t - 60)) ELSE N0,
      u2 |-> IF usable THEN P(9) ELSE N0]
Days(l) == LET ds == DateSeq(l.start, l.n) IN [i \in 1..l.n |-> DayRow(l, i, ds[i], MonthIndex(l.start))]
Expected(i) ==
  IF i.agg \notin AggOk THEN [res |-> "ValueError", same |-> TRUE, hasObs |-> i.hasObs, rows |-> <<>>]
  ELSE IF i.agg \in {"None", "none"} THEN [res |-> "ok", same |-> TRUE, hasObs |-> i.hasObs, rows |-> <<>>]
  ELSE [res |-> "ok", same |-> TRUE, hasObs |-> i.hasObs,
        rows |-> [k \in 1..NPeriods(i) |->
                   LET c == PCnt(i, "temp", k - 1) IN
                   [mi |-> Mi0(i) + Step(i.agg) * (k - 1), pred |-> PSum(i, "pred", k - 1), obs |-> PSum(i, "obs", k - 1),
                    heat |-> PSum(i, "heat", k - 1), cool |-> PSum(i, "cool", k - 1),
                    tn |-> PSum(i, "temp", k - 1), td |-> c, tok |-> TRUE, u2 |-> PSum(i, "u2", k - 1), u2ok |-> TRUE]]]
Init == /\ lay \in [start : Starts, n : Spans, gap : Gaps, obs : ObsPats, agg : Aggs]
        /\ in = [agg |-> lay.agg, hasObs |-> lay.obs # "absent", obsExact |-> TRUE, days |-> Days(lay)]
        /\ out = [res |-> "pending"] /\ pc = "call"
Call == pc = "call" /\ out' = Expected(in) /\ pc' = "done" /\ UNCHANGED <<lay, in>>
Next == Call
Spec == Init /\ [][Next]_vars
OracleSelfConsistent == pc = "done" => Failing(in, out) = {}
\* the monthly and the bi-monthly aggregation of the same days have the same grand totals as the days
LevelsAgree == pc = "done" =>
  LET m == [in EXCEPT !.agg = "monthly"]  b == [in EXCEPT !.agg = "bimonthly"]
      tot(x, name) == Total([k \in 1..NPeriods(x) |-> PSum(x, name, k - 1)], NPeriods(x))
  IN \A name \in {"pred", "obs", "heat", "cool", "u2"} : tot(m, name) = tot(b, name)
PeriodCount == pc = "done" => NPeriods([in EXCEPT !.agg = "bimonthly"]) = (NPeriods([in EXCEPT !.agg = "monthly"]) + 1) \div 2
=============================================================================
