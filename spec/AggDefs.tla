------------------------------- MODULE AggDefs -------------------------------
(***************************************************************************)
(* C19 - BillingModel.predict(aggregation=...) as a function of the daily  *)
(* rows the same call returns without aggregation.                         *)
(*  in  = [agg, hasObs, days]  days[i] = [mi, pred, obs, heat, cool, temp, u2] *)
(*          mi  = 12*year + month of the row (local calendar)               *)
(*          every quantity is [h |-> present?, v |-> integer]               *)
(*          u2  = squared daily uncertainty                                 *)
(*  out = [res, same, hasObs, rows]                                         *)
(*          rows[k] = [mi, pred, obs, heat, cool, tn, td, tok, u2, u2ok]    *)
(*          tn/td = period temperature snapped to a rational (td = 0: none) *)
(* "None" stands for the python None argument.                             *)
(***************************************************************************)
EXTENDS Integers, Sequences, FiniteSets, TLC

AggOk == {"None", "none", "monthly", "bimonthly"}
Step(agg) == IF agg = "bimonthly" THEN 2 ELSE 1
Mi0(in) == in.days[1].mi
NPeriods(in) == ((in.days[Len(in.days)].mi - Mi0(in)) \div Step(in.agg)) + 1
Group(in, i) == (in.days[i].mi - Mi0(in)) \div Step(in.agg)         \* 0-based period of row i
RECURSIVE SumF(_, _, _, _)
\* sum over rows 1..k of period g of field f (a function row -> [h, v])
SumF(in, f, g, k) == IF k = 0 THEN 0 ELSE SumF(in, f, g, k - 1) + (IF Group(in, k) = g /\ f[k].h THEN f[k].v ELSE 0)
RECURSIVE CntF(_, _, _, _)
CntF(in, f, g, k) == IF k = 0 THEN 0 ELSE CntF(in, f, g, k - 1) + (IF Group(in, k) = g /\ f[k].h THEN 1 ELSE 0)
Field(in, name) == [i \in 1..Len(in.days) |-> in.days[i][name]]
PSum(in, name, g) == SumF(in, Field(in, name), g, Len(in.days))
PCnt(in, name, g) == CntF(in, Field(in, name), g, Len(in.days))
RECURSIVE Total(_, _)
Total(f, k) == IF k = 0 THEN 0 ELSE Total(f, k - 1) + f[k]

Clauses(in, out) ==
  LET valid == in.agg \in AggOk
      grouped == in.agg \in {"monthly", "bimonthly"} /\ out.res = "ok"
      n == IF Len(in.days) = 0 THEN 0 ELSE NPeriods(in)
      shape == grouped /\ Len(out.rows) = n
  IN
  << <<"OtherArgumentsRejected", ~valid => out.res # "ok">>,
     <<"ValidArgumentsAccepted", valid => out.res \in {"ok", "noobject"}>>,   \* "noobject": no data object / no exact realisation, predict not judged
     <<"NoAggregationIsDailyLevel", (in.agg \in {"None", "none"} /\ out.res = "ok") => out.same>>,
     <<"ObservedColumnKept", grouped => (out.hasObs <=> in.hasObs)>>,
     <<"OneRowPerCalendarPeriod", grouped => (Len(out.rows) = n /\ \A k \in 1..Len(out.rows) : out.rows[k].mi = Mi0(in) + Step(in.agg) * (k - 1))>>,
     <<"PredictedIsSumOfDailyRows", shape => \A k \in 1..n : out.rows[k].pred = PSum(in, "pred", k - 1)>>,
     <<"ObservedIsSumOfDailyRows", (shape /\ in.hasObs /\ in.obsExact) => \A k \in 1..n : out.rows[k].obs = PSum(in, "obs", k - 1)>>,
     <<"LoadsAreSumsOfDailyRows", shape => \A k \in 1..n : out.rows[k].heat = PSum(in, "heat", k - 1) /\ out.rows[k].cool = PSum(in, "cool", k - 1)>>,
     <<"TemperatureIsMeanOfDailyRows", shape => \A k \in 1..n :
          LET c == PCnt(in, "temp", k - 1) IN
          IF c = 0 THEN out.rows[k].td = 0
          ELSE out.rows[k].td > 0 /\ out.rows[k].tok /\ out.rows[k].tn * c = PSum(in, "temp", k - 1) * out.rows[k].td>>,
     <<"UncertaintyIsRootSumSquare", shape => \A k \in 1..n : out.rows[k].u2ok /\ out.rows[k].u2 = PSum(in, "u2", k - 1)>>,
     <<"SavingsFromAggregatedColumnsEqualRowwiseSavings", (shape /\ in.hasObs /\ in.obsExact) =>
          Total([k \in 1..n |-> out.rows[k].obs], n) - Total([k \in 1..n |-> out.rows[k].pred], n)
            = Total([i \in 1..Len(in.days) |-> IF in.days[i].pred.h /\ in.days[i].obs.h THEN in.days[i].obs.v - in.days[i].pred.v ELSE 0], Len(in.days))>>,
     <<"TotalsConserved", shape => Total([k \in 1..n |-> out.rows[k].pred], n) = Total([i \in 1..Len(in.days) |-> IF in.days[i].pred.h THEN in.days[i].pred.v ELSE 0], Len(in.days))>> >>
Failing(in, out) == LET c == Clauses(in, out) IN {c[k][1] : k \in {k \in 1..Len(c) : ~c[k][2]}}
=============================================================================
