------------------------------ MODULE AggTrace ------------------------------
(* Trace validation for C19: every recorded BillingModel.predict(aggregation) *)
(* call, with the daily rows of the same model and data as abstract input,     *)
(* is judged against AggDefs!Clauses.                                          *)
EXTENDS AggDefs, Json, IOUtils, TLCExt
Cases == JsonDeserialize(IOEnv.TRACE_FILE)
VARIABLES i, nrej
Init == i = 1 /\ nrej = 0
Next == /\ i <= Len(Cases)
        /\ LET c == Cases[i]
               f == Failing(c.in, c.out)
           IN IF f = {} THEN nrej' = nrej
              ELSE PrintT(<<"REJECT", c.id, f>>) /\ nrej' = nrej + 1
        /\ i' = i + 1
Spec == Init /\ [][Next]_<<i, nrej>>
=============================================================================
