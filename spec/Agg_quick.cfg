SPECIFICATION Spec
CONSTANTS
  Starts <- StartsQuick
  Spans = {1, 20, 45, 100}
  Gaps = {"none", "every5th", "secondMonth", "firstWeek"}
  ObsPats = {"full", "absent", "thirdMissing"}
  Aggs = {"None", "none", "monthly", "bimonthly", "Monthly", "weekly", ""}
INVARIANT OracleSelfConsistent
INVARIANT LevelsAgree
INVARIANT PeriodCount
