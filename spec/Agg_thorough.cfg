SPECIFICATION Spec
CONSTANTS
  Starts <- StartsThorough
  Spans = {1, 2, 20, 31, 45, 61, 100, 150}
  Gaps = {"none", "every5th", "secondMonth", "firstWeek"}
  ObsPats = {"full", "absent", "thirdMissing"}
  Aggs = {"None", "none", "monthly", "bimonthly", "Monthly", "weekly", "", "MONTHLY", "bi-monthly", "daily"}
INVARIANT OracleSelfConsistent
INVARIANT LevelsAgree
INVARIANT PeriodCount
