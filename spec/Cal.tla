--------------------------------- MODULE Cal ---------------------------------
(* Civil calendar on integers: leap years, month lengths, day stepping, month *)
(* index (12*year + month), day of week.                                      *)
EXTENDS Integers, Sequences
IsLeap(y) == (y % 4 = 0 /\ y % 100 # 0) \/ y % 400 = 0
DaysIn(y, m) == IF m = 2 THEN (IF IsLeap(y) THEN 29 ELSE 28) ELSE IF m \in {4, 6, 9, 11} THEN 30 ELSE 31
NextDay(t) == IF t[3] < DaysIn(t[1], t[2]) THEN <<t[1], t[2], t[3] + 1>>
              ELSE IF t[2] < 12 THEN <<t[1], t[2] + 1, 1>> ELSE <<t[1] + 1, 1, 1>>
RECURSIVE AddDays(_, _)
AddDays(t, k) == IF k = 0 THEN t ELSE AddDays(NextDay(t), k - 1)
MonthIndex(t) == 12 * t[1] + t[2]
\* days since 1970-01-01 (Thursday); weekday 1 = Monday .. 7 = Sunday
RECURSIVE DaysBeforeYear(_)
DaysBeforeYear(y) == IF y = 1970 THEN 0 ELSE DaysBeforeYear(y - 1) + (IF IsLeap(y - 1) THEN 366 ELSE 365)
RECURSIVE DaysBeforeMonth(_, _)
DaysBeforeMonth(y, m) == IF m = 1 THEN 0 ELSE DaysBeforeMonth(y, m - 1) + DaysIn(y, m - 1)
Ordinal(t) == DaysBeforeYear(t[1]) + DaysBeforeMonth(t[1], t[2]) + t[3] - 1
Weekday(t) == ((Ordinal(t) + 3) % 7) + 1
\* sequence of n consecutive dates starting at t
RECURSIVE DateSeq(_, _)
DateSeq(t, n) == IF n = 0 THEN <<>> ELSE <<t>> \o DateSeq(NextDay(t), n - 1)
=============================================================================
