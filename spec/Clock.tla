-------------------------------- MODULE Clock --------------------------------
(* Bounded model for C06 (hourly): every sequence of <= MaxDays local days over *)
(* the day kinds of one zone class.  `Call` applies the I-layer (the code as    *)
(* written); `lead` records the P-clauses that outcome fails.  api-level cases   *)
(* (a real contiguous frame) are those with at most one non-N day.               *)
EXTENDS ClockDefs
CONSTANTS MaxDays, ZoneKinds,     \* ZoneKinds: zone class -> set of day kinds
          Twin                    \* zone class -> a zone class with the same UTC offsets and transition dates but another hour
VARIABLES in, out, pc, lead
vars == <<in, out, pc, lead>>
NonN(days) == Cardinality({d \in 1..Len(days) : days[d].k # "N"})
Init ==
  /\ \E z \in DOMAIN ZoneKinds, n \in 1..MaxDays, lvl \in {"fn", "api"}, o \in {"present", "blank", "absent"}, pr \in {"none", "twin"} :
       \E ds \in [1..n -> ZoneKinds[z]] :
          /\ (pr = "twin" => z \in DOMAIN Twin)
          /\ (lvl = "api" => NonN(ds) <= 1)
          /\ (lvl = "fn" => o = "present")
          /\ \A d \in 1..(n - 1) : ds[d].k = "N" \/ ds[d + 1].k = "N"      \* no real calendar changes the clock on two consecutive days
          \* prior: the zone whose identical instants were processed just before, in the same process (the outcome may not depend on it)
          /\ in = [lvl |-> lvl, zone |-> z, days |-> ds, obs |-> o, prior |-> IF pr = "twin" THEN Twin[z] ELSE "none"]
  /\ out = [res |-> "pending"] /\ pc = "call" /\ lead = {}
Call == /\ pc = "call"
        /\ LET o == IF in.lvl = "fn" THEN ICall(in.days)
                    ELSE [res |-> "ok", rows_ok |-> TRUE, nonfinite |-> 0, nrows |-> Len(Rows(in.days))]
           IN out' = o /\ lead' = Failing(in, o)
        /\ pc' = "done" /\ UNCHANGED in
Next == Call
Spec == Init /\ [][Next]_vars
IImpliesP == lead = {}
\* sanity of the oracle: S days have 23 rows, F days 25, and hours are non-decreasing inside a day
RowShape == \A d \in 1..Len(in.days) : LET r == RowsOfDay(d, in.days[d]) IN
              /\ Len(r) = (CASE in.days[d].k = "N" -> 24 [] in.days[d].k = "S" -> 23 [] in.days[d].k = "F" -> 25)
              /\ \A i \in 1..(Len(r) - 1) : r[i].h <= r[i + 1].h
=============================================================================
