------------------------------ MODULE ClockDefs ------------------------------
(***************************************************************************)
(* C06 (hourly) - the 24-slot clock normalisation of the hourly model and  *)
(* its inverse.  A local day is N (24 clock hours), S@h (23: hour h is     *)
(* skipped) or F@h (25: hour h occurs twice).                              *)
(*   in  = [lvl, zone, days, obs]   days[d] = [k, h]                       *)
(*   fn-level  out = [res, labels]  labels[i] = [d, h, half]: the slot the *)
(*       i-th returned value was taken from (half: interpolated between    *)
(*       that slot and the next one)                                       *)
(*   api-level out = [res, rows_ok, nonfinite, nrows]                      *)
(* P-layer: one value per real clock hour, in order, each taken from the   *)
(* slot of its own day and hour; a skipped hour stays absent, a repeated   *)
(* hour appears twice (second occurrence interpolated after its own slot). *)
(* I-layer: _get_dst_indices / correct_dst / _transform_dst as written     *)
(* (row counting, fence-post slicing, insert position h+1).                *)
(***************************************************************************)
EXTENDS Integers, Sequences, FiniteSets, SequencesExt, TLC

RowsOfDay(d, k) ==
  CASE k.k = "N" -> [i \in 1..24 |-> [d |-> d, h |-> i - 1, occ |-> 1]]
    [] k.k = "S" -> [i \in 1..23 |-> [d |-> d, h |-> IF i - 1 < k.h THEN i - 1 ELSE i, occ |-> 1]]
    [] k.k = "X" -> [i \in 1..k.n |-> [d |-> d, h |-> i - 1, occ |-> 1]]      \* a day outside the three kinds: only its number of clock hours is modelled
    [] k.k = "F" -> [i \in 1..25 |-> IF i - 1 <= k.h THEN [d |-> d, h |-> i - 1, occ |-> 1]
                                     ELSE IF i - 1 = k.h + 1 THEN [d |-> d, h |-> k.h, occ |-> 2]
                                     ELSE [d |-> d, h |-> i - 2, occ |-> 1]]
Rows(days) == FlattenSeq([d \in 1..Len(days) |-> RowsOfDay(d, days[d])])
\* the slot a row's value must come from; whether the value was interpolated (half) is not constrained by the statement
SameSlot(lbl, r) == lbl.d = r.d /\ lbl.h = r.h

Clauses(in, out) ==
  LET rows == Rows(in.days) IN
  IF in.lvl = "fn" THEN
  << <<"NormalisationSucceeds", out.res = "ok">>,
     <<"OneValuePerClockHour", out.res = "ok" => Len(out.labels) = Len(rows)>>,
     <<"NoTimestampDroppedDuplicatedOrShifted", (out.res = "ok" /\ Len(out.labels) = Len(rows)) =>
            \A i \in 1..Len(rows) : SameSlot(out.labels[i], rows[i])>> >>
  ELSE
  << <<"PredictReturns", out.res = "ok">>,
     <<"DataObjectHasOneRowPerClockHour", out.res = "ok" => out.nrows = Len(rows)>>,
     <<"OneRowPerInputTimestamp", out.res = "ok" => out.rows_ok>>,
     <<"HourlyFiniteOnEveryRow", out.res = "ok" => out.nonfinite = 0>> >>
Failing(in, out) == LET c == Clauses(in, out) IN {c[k][1] : k \in {k \in 1..Len(c) : ~c[k][2]}}

----------------------------------------------------------------------------
\* I-layer (function level)
IDetect(days) ==      \* (interp list, mean list) as sequences of <<0-based day index, hour>>
  [interp |-> SelectSeq([d \in 1..Len(days) |-> <<d - 1, days[d].h, Len(RowsOfDay(d, days[d]))>>], LAMBDA t : t[3] = 23),
   mean   |-> SelectSeq([d \in 1..Len(days) |-> <<d - 1, days[d].h, Len(RowsOfDay(d, days[d]))>>], LAMBDA t : t[3] = 25)]
\* the model's output before _transform_dst: one value per slot of every (normalised) day; value = slot number
NSlots(days) == 24 * Len(days)
Ops(days) ==
  LET det == IDetect(days)
      rm  == [t \in 1..Len(det.interp) |-> <<"R", det.interp[t][1] * 24 + det.interp[t][2]>>]
      ins == [t \in 1..Len(det.mean) |-> <<"I", det.mean[t][1] * 24 + det.mean[t][2] + 1>>]
      all == rm \o ins
      key(t) == all[t][2] * 100 + t
      perm == SortSeq([t \in 1..Len(all) |-> t], LAMBDA a, b : key(a) < key(b))
  IN [t \in 1..Len(all) |-> all[perm[t]]]
Lab(j, half) == [d |-> (j \div 24) + 1, h |-> j % 24, half |-> half]       \* slot number j (0-based) -> label
SliceLabels(s, e) == IF s >= e THEN <<>> ELSE [i \in 1..(e - s) |-> Lab(s + i - 1, FALSE)]     \* python prediction[s:e]
RECURSIVE Build(_, _, _, _, _)
Build(n, ops, t, prevKind, prevIdx) ==
  LET endIdx == IF t > Len(ops) THEN n ELSE ops[t][2]
      startI == IF prevKind = "R" THEN prevIdx + 1 ELSE prevIdx
      insLbl == IF prevKind = "I" THEN << Lab(prevIdx - 1, TRUE) >> ELSE <<>>
      piece  == insLbl \o SliceLabels(startI, endIdx)
  IN IF t > Len(ops) THEN piece ELSE piece \o Build(n, ops, t + 1, ops[t][1], ops[t][2])
\* an insert position equal to the array length (repeated hour 23 on the last day) interpolates with the last value itself
ICall(days) == [res |-> "ok", labels |-> Build(NSlots(days), Ops(days), 1, "START", 0)]
=============================================================================
