------------------------------- MODULE ClockMC -------------------------------
EXTENDS Clock
K(k, h) == [k |-> k, h |-> h]
N == K("N", 0)
ZK == [chicago  |-> {N, K("S", 2), K("F", 1)},
       newyork  |-> {N, K("S", 2), K("F", 1)},       \* same offsets and transition dates as Havana, another hour
       london   |-> {N, K("S", 1), K("F", 1)},
       havana   |-> {N, K("S", 0), K("F", 0)},
       saopaulo |-> {N, K("S", 0), K("F", 23)}]
TW == [havana |-> "newyork", newyork |-> "havana"]
=============================================================================
