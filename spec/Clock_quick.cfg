SPECIFICATION Spec
CONSTANTS
  MaxDays = 3
  ZoneKinds <- ZK
INVARIANT IImpliesP
INVARIANT RowShape
