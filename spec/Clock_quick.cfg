SPECIFICATION Spec
CONSTANTS
  MaxDays = 3
  ZoneKinds <- ZK
  Twin <- TW
INVARIANT IImpliesP
INVARIANT RowShape
