SPECIFICATION Spec
CONSTANTS
  MaxDays = 4
  ZoneKinds <- ZK
INVARIANT IImpliesP
INVARIANT RowShape
