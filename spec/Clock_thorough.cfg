SPECIFICATION Spec
CONSTANTS
  MaxDays = 4
  ZoneKinds <- ZK
  Twin <- TW
INVARIANT IImpliesP
INVARIANT RowShape
