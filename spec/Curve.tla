-------------------------------- MODULE Curve --------------------------------
(* Bounded enumeration for C11: the seven model shapes over a grid of balance   *)
(* points, slopes and smoothing fractions, probed on a temperature grid that    *)
(* contains the balance points themselves.  Theorems on the documented formula: *)
(* bounds are ordered (asymptote <= shifted line), the curve is continuous at   *)
(* the flat-part balance points (both bounds meet the base load there) and the  *)
(* bounds are monotone outwards.                                                *)
EXTENDS CurveDefs, SequencesExt
CONSTANTS BPs, Betas, Pcts
VARIABLES in, out, pc
vars == <<in, out, pc>>
BetasQ == {Q(1, 2), R(2)}
BetasT == {Q(1, 4), R(1), R(2)}
PctsQ == {Zero, Q(1, 64), Q(1, 4), Q(1, 2)}      \* 1/64: a small smoothing constant (k = 0.3125 on a 20 F band): the exponential underflows inside the probed range
PctsT == {Zero, Q(1, 128), Q(1, 4), Q(3, 4)}
Types == {"hdd_tidd_cdd_smooth", "hdd_tidd_cdd", "hdd_tidd_smooth", "tidd_cdd_smooth", "hdd_tidd", "tidd_cdd", "tidd"}
C0 == R(10)
ProbeBase == {-60, 0, 10, 20, 25, 30, 35, 40, 45, 50, 55, 60, 65, 70, 75, 80, 90, 100, 140}
\* sorted sequence of the base probes plus the four landmark temperatures of the document
Probes(i) ==
  LET extra == {Heat(i).flat, Heat(i).asym, Cool(i).flat, Cool(i).asym} \cup {Add(Heat(i).flat, Q(-1, 4)), Add(Cool(i).flat, Q(1, 4))}
      all == {R(t) : t \in ProbeBase} \cup extra
  IN SortSeq(SetToSeq(all), LAMBDA a, b : Lt(a, b))
Doc(mt, hbp, hb, hk, cbp, cb, ck) == [mt |-> mt, c |-> C0, hbp |-> hbp, hb |-> hb, hk |-> hk, cbp |-> cbp, cb |-> cb, ck |-> ck]
Docs ==
  {Doc("hdd_tidd_cdd_smooth", R(h), b1, k1, R(c), b2, k2) : h \in BPs, c \in BPs, b1 \in Betas, b2 \in Betas, k1 \in Pcts, k2 \in Pcts}
  \cup {Doc("hdd_tidd_cdd", R(h), b1, Zero, R(c), b2, Zero) : h \in BPs, c \in BPs, b1 \in Betas, b2 \in Betas}
  \cup {Doc("hdd_tidd_smooth", R(h), Neg(b1), Mul(k1, R(20)), Zero, Zero, Zero) : h \in BPs, b1 \in Betas, k1 \in Pcts \ {Zero}}
  \cup {Doc("tidd_cdd_smooth", Zero, Zero, Zero, R(c), b2, Mul(k2, R(20))) : c \in BPs, b2 \in Betas, k2 \in Pcts \ {Zero}}
  \cup {Doc("hdd_tidd", R(h), Neg(b1), Zero, Zero, Zero, Zero) : h \in BPs, b1 \in Betas}
  \cup {Doc("tidd_cdd", Zero, Zero, Zero, R(c), b2, Zero) : c \in BPs, b2 \in Betas}
  \cup {Doc("tidd", Zero, Zero, Zero, Zero, Zero, Zero)}
Admissible(d) == (d.mt \in {"hdd_tidd_cdd_smooth", "hdd_tidd_cdd"} => Lt(d.hbp, d.cbp))
                 /\ (d.mt = "hdd_tidd_cdd_smooth" => ~(IsZero(d.hk) /\ IsZero(d.ck)))
Init == /\ \E d \in {x \in Docs : Admissible(x)} : in = [d EXCEPT !.c = C0] @@ [probes |-> Probes(d)]
        /\ out = [res |-> "pending"] /\ pc = "call"
Call == pc = "call" /\ out' = [res |-> "modelled"] /\ pc' = "done" /\ UNCHANGED in
Next == Call
Spec == Init /\ [][Next]_vars
BoundsOrdered == \A i \in 1..Len(in.probes) : Le(Lower(in, in.probes[i]), Upper(in, in.probes[i])) /\ Le(in.c, Lower(in, in.probes[i]))
ContinuousAtTheFlatPart == (Heat(in).has => Eq(Upper(in, Heat(in).flat), in.c)) /\ (Cool(in).has => Eq(Upper(in, Cool(in).flat), in.c))
BoundsMonotoneOutwards == \A i \in 1..(Len(in.probes) - 1) :
   /\ (Region(in, in.probes[i + 1]) = "heat" => Le(Lower(in, in.probes[i + 1]), Lower(in, in.probes[i])) /\ Le(Upper(in, in.probes[i + 1]), Upper(in, in.probes[i])))
   /\ (Region(in, in.probes[i]) = "cool" => Le(Lower(in, in.probes[i]), Lower(in, in.probes[i + 1])) /\ Le(Upper(in, in.probes[i]), Upper(in, in.probes[i + 1])))
FlatPartNonEmpty == (Heat(in).has /\ Cool(in).has) => Le(Heat(in).flat, Cool(in).flat)
=============================================================================
