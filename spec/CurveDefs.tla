------------------------------ MODULE CurveDefs ------------------------------
(***************************************************************************)
(* C11 (and the formula clause of C01) - the daily / billing model curve   *)
(* from the parameters of a stored sub-model alone, on exact rationals.    *)
(*  in = [mt, c, hbp, hb, hk, cbp, cb, ck, probes]                         *)
(*     mt: model_type; every number a rational <<num, den>> (absent        *)
(*     coefficients are <<0, 1>>); hb / cb as stored (hdd_beta is negative *)
(*     in the single-slope heating types); hk / ck as stored (a fraction   *)
(*     of the balance-point distance in hdd_tidd_cdd_smooth, an absolute   *)
(*     width in the single-slope smooth types); probes: increasing         *)
(*     sequence of rational temperatures                                   *)
(*  out = [res, rows]  rows[i] = [fl, ce, en, ed, eok, loadsOk, heatOnly,  *)
(*     coolOnly]: floor and ceiling of 1000 * predicted, predicted snapped *)
(*     to en/ed (eok: exact), the load flags measured on the doubles       *)
(* Documented formula: base load c between the balance points; beyond the  *)
(* heating (cooling) balance point a straight line with the fitted slope,  *)
(* reached exactly when unsmoothed and from above-the-asymptote when       *)
(* smoothed: asymptote(T) <= curve(T) <= line through the shifted balance  *)
(* point, curve >= c, monotone outwards.                                   *)
(***************************************************************************)
EXTENDS Integers, Sequences, FiniteSets, TLC, Rat

S == 1000
HeatTypes == {"hdd_tidd_cdd_smooth", "hdd_tidd_cdd", "hdd_tidd_smooth", "hdd_tidd"}
CoolTypes == {"hdd_tidd_cdd_smooth", "hdd_tidd_cdd", "tidd_cdd_smooth", "tidd_cdd"}
One == R(1)
MinPct == Q(1, 100)
\* absolute smoothing widths of the two-sided smooth type (get_smooth_coeffs): fractions of the balance-point distance,
\* renormalised when they add up to more than 1, dropped when both are under 1 %
Widths(in) ==
  IF in.mt # "hdd_tidd_cdd_smooth" THEN <<in.hk, in.ck>>
  ELSE IF Lt(in.hk, MinPct) /\ Lt(in.ck, MinPct) THEN <<Zero, Zero>>
  ELSE LET s  == Add(in.hk, in.ck)
           hp == IF Lt(One, s) THEN Div(in.hk, s) ELSE in.hk
           cp == IF Lt(One, s) THEN Div(in.ck, s) ELSE in.ck
           rg == Sub(in.cbp, in.hbp)
       IN <<Mul(hp, rg), Mul(cp, rg)>>
\* heating side: slope, asymptote balance point (the stored one), balance point where the flat part begins
HeatBeta(in) == IF in.mt \in {"hdd_tidd", "hdd_tidd_smooth"} THEN Neg(in.hb) ELSE in.hb
Heat(in) == IF in.mt \notin HeatTypes THEN [has |-> FALSE, beta |-> Zero, asym |-> Zero, flat |-> Zero]
            ELSE IF in.mt = "hdd_tidd_cdd_smooth" THEN [has |-> TRUE, beta |-> HeatBeta(in), asym |-> in.hbp, flat |-> Add(in.hbp, Widths(in)[1])]
            ELSE [has |-> TRUE, beta |-> HeatBeta(in), asym |-> Sub(in.hbp, Widths(in)[1]), flat |-> in.hbp]
Cool(in) == IF in.mt \notin CoolTypes THEN [has |-> FALSE, beta |-> Zero, asym |-> Zero, flat |-> Zero]
            ELSE IF in.mt = "hdd_tidd_cdd_smooth" THEN [has |-> TRUE, beta |-> in.cb, asym |-> in.cbp, flat |-> Sub(in.cbp, Widths(in)[2])]
            ELSE [has |-> TRUE, beta |-> in.cb, asym |-> Add(in.cbp, Widths(in)[2]), flat |-> in.cbp]
Region(in, T) == IF Heat(in).has /\ Lt(T, Heat(in).flat) THEN "heat"
                 ELSE IF Cool(in).has /\ Lt(Cool(in).flat, T) THEN "cool" ELSE "flat"
\* lower (asymptote) and upper (line through the flat-part balance point) bounds of the curve at T
Lower(in, T) == CASE Region(in, T) = "heat" -> LET a == Add(in.c, Mul(Heat(in).beta, Sub(Heat(in).asym, T))) IN IF Lt(a, in.c) THEN in.c ELSE a
                  [] Region(in, T) = "cool" -> LET a == Add(in.c, Mul(Cool(in).beta, Sub(T, Cool(in).asym))) IN IF Lt(a, in.c) THEN in.c ELSE a
                  [] OTHER -> in.c
Upper(in, T) == CASE Region(in, T) = "heat" -> Add(in.c, Mul(Heat(in).beta, Sub(Heat(in).flat, T)))
                  [] Region(in, T) = "cool" -> Add(in.c, Mul(Cool(in).beta, Sub(T, Cool(in).flat)))
                  [] OTHER -> in.c
\* the asymptote itself (not clamped at the base load): the straight line with the fitted slope through the stored balance point
AsymLine(in, T) == IF Region(in, T) = "heat" THEN Add(in.c, Mul(Heat(in).beta, Sub(Heat(in).asym, T)))
                   ELSE IF Region(in, T) = "cool" THEN Add(in.c, Mul(Cool(in).beta, Sub(T, Cool(in).asym))) ELSE in.c
Exact(in, T) == Eq(Lower(in, T), Upper(in, T))         \* unsmoothed side, or the flat part

Clauses(in, out) ==
  LET n == Len(in.probes)
      ok == out.res = "ok" /\ Len(out.rows) = n IN
  << <<"PredictReturns", out.res = "ok" /\ Len(out.rows) = n>>,
     <<"BaseLoadBetweenTheBalancePoints", ok => \A i \in 1..n : Region(in, in.probes[i]) = "flat" =>
            (out.rows[i].eok /\ Eq(<<out.rows[i].en, out.rows[i].ed>>, in.c))>>,
     <<"StraightLineWithTheFittedSlopeWhenUnsmoothed", ok => \A i \in 1..n : Exact(in, in.probes[i]) =>
            (out.rows[i].eok /\ Eq(<<out.rows[i].en, out.rows[i].ed>>, Lower(in, in.probes[i])))>>,
     <<"SmoothedCurveBetweenAsymptoteAndShiftedLine", ok => \A i \in 1..n :
            /\ Le(Mul(Lower(in, in.probes[i]), R(S)), R(out.rows[i].ce))
            /\ Le(R(out.rows[i].fl), Mul(Upper(in, in.probes[i]), R(S)))>>,
     <<"NeverBelowTheBaseLoad", ok => \A i \in 1..n : Le(Mul(in.c, R(S)), R(out.rows[i].ce))>>,
     <<"MonotoneOutwards", ok => \A i \in 1..(n - 1) :
            /\ (Region(in, in.probes[i]) = "heat" /\ Region(in, in.probes[i + 1]) = "heat") => out.rows[i].ce >= out.rows[i + 1].fl
            /\ (Region(in, in.probes[i]) = "cool" /\ Region(in, in.probes[i + 1]) = "cool") => out.rows[i].fl <= out.rows[i + 1].ce>>,
     \* the order-relation form of "asymptotically a straight line with the fitted slope": the gap above the asymptote never grows outwards
     <<"GapToTheAsymptoteShrinksOutwards", ok => \A i \in 1..(n - 1) :
            /\ (Region(in, in.probes[i]) = "heat" /\ Region(in, in.probes[i + 1]) = "heat") =>
                  Le(Sub(R(out.rows[i].fl), Mul(AsymLine(in, in.probes[i]), R(S))), Sub(R(out.rows[i + 1].ce), Mul(AsymLine(in, in.probes[i + 1]), R(S))))
            /\ (Region(in, in.probes[i]) = "cool" /\ Region(in, in.probes[i + 1]) = "cool") =>
                  Le(Sub(R(out.rows[i + 1].fl), Mul(AsymLine(in, in.probes[i + 1]), R(S))), Sub(R(out.rows[i].ce), Mul(AsymLine(in, in.probes[i]), R(S))))>>,
     \* one width beyond the flat-part balance point (i.e. at the stored balance point of the two-sided type) the documented
     \* kernel gives base + slope * width / e; e is enclosed by 2718/1000 < e < 2719/1000
     <<"SmoothingFollowsTheExponentialKernel", ok => \A i \in 1..n :
            LET T == in.probes[i]
                hw == Sub(Heat(in).flat, Heat(in).asym)
                cw == Sub(Cool(in).asym, Cool(in).flat)
            IN /\ (Heat(in).has /\ ~IsZero(hw) /\ Eq(T, Heat(in).asym)) =>
                     /\ Le(R(out.rows[i].fl), Mul(Add(in.c, Mul(Mul(Heat(in).beta, hw), Q(1000, 2718))), R(S)))
                     /\ Le(Mul(Add(in.c, Mul(Mul(Heat(in).beta, hw), Q(1000, 2719))), R(S)), R(out.rows[i].ce))
               /\ (Cool(in).has /\ ~IsZero(cw) /\ Eq(T, Cool(in).asym)) =>
                     /\ Le(R(out.rows[i].fl), Mul(Add(in.c, Mul(Mul(Cool(in).beta, cw), Q(1000, 2718))), R(S)))
                     /\ Le(Mul(Add(in.c, Mul(Mul(Cool(in).beta, cw), Q(1000, 2719))), R(S)), R(out.rows[i].ce))>>,
     \* C01 on constructed documents: written with to_json and read back, the model predicts the same bytes and re-serialises to the same document
     <<"StoredAgainItLoads", ok => out.rt.ok>>,
     <<"StoredAgainItPredictsTheSame", (ok /\ out.rt.ok) => out.rt.predSame>>,
     <<"StoredAgainItIsTheSameDocument", (ok /\ out.rt.ok) => out.rt.docSame>>,
     <<"LoadsNonNegativeExclusiveAndAdditive", ok => \A i \in 1..n : out.rows[i].loadsOk>>,
     <<"LoadOnTheRightSide", ok => \A i \in 1..n :
            /\ (Region(in, in.probes[i]) = "heat" => out.rows[i].heatOnly)
            /\ (Region(in, in.probes[i]) = "cool" => out.rows[i].coolOnly)>> >>
Failing(in, out) == LET c == Clauses(in, out) IN {c[k][1] : k \in {k \in 1..Len(c) : ~c[k][2]}}
=============================================================================
