SPECIFICATION Spec
INVARIANT CurveIdentityInBox
