----------------------------- MODULE CurveImpl -----------------------------
(* I-layer of the refine / reduce / read-back chain of OptimizedResult (get_smooth_coeffs, full_model regime choice,   *)
(* fix_full_model_x, get_full_model_x, get_k, reduce_model) on exact rationals.  CurveIdentityInBox: for every raw       *)
(* optimiser vector inside the optimiser's box the evaluation path and the read-back path reach the same piece at       *)
(* every probe temperature.  TLC reports the raw vectors for which they do not (structural leads for C12).             *)
EXTENDS Integers, Sequences, FiniteSets, TLC, Rat
GtR(a, b) == Lt(b, a)
GeR(a, b) == Le(b, a)
\* temperature landmarks of the fitted segment (integers for the prototype)
Tmin == R(0)  Tminseg == R(2)  Tmaxseg == R(8)  Tmax == R(10)
BPs   == {R(0), R(2), R(4), R(6), R(8), R(10)}
Betas == {R(0), R(1), R(2)}
PKs   == {R(0), Q(1,200), Q(1,2), R(1)}
Probes == {R(t) : t \in 0..10} \cup {Q(1,2), Q(9,2), Q(19,2), Q(5,2), Q(15,2)}
C0 == R(10)
MinPct == Q(1,100)

VARIABLES raw, phase
vars == <<raw, phase>>

\* ---------- get_smooth_coeffs(hbp, hpk, cbp, cpk) -> <<hbp', hk, cbp', ck>>
Smooth(hbp, hpk, cbp, cpk) ==
  IF Lt(hpk, MinPct) /\ Lt(cpk, MinPct) THEN <<hbp, Zero, cbp, Zero>>
  ELSE LET s  == Add(hpk, cpk)
           hp == IF GtR(s, R(1)) THEN Div(hpk, s) ELSE hpk
           cp == IF GtR(s, R(1)) THEN Div(cpk, s) ELSE cpk
           rg == Sub(cbp, hbp)
           hk == Mul(hp, rg)
           ck == Mul(cp, rg)
       IN <<Add(hbp, hk), hk, Sub(cbp, ck), ck>>

\* ---------- full_model regime descriptor at temperature T for args x = <<hbp,hb,hk,cbp,cb,ck,c>>
Desc(x, T) ==
  IF IsZero(x[2]) /\ IsZero(x[5]) THEN <<"flat">>
  ELSE LET sw  == Lt(x[4], x[1])
           hbp == IF sw THEN x[4] ELSE x[1]   hb == IF sw THEN x[5] ELSE x[2]   hk == IF sw THEN x[6] ELSE x[3]
           cbp == IF sw THEN x[1] ELSE x[4]   cb == IF sw THEN x[2] ELSE x[5]   ck == IF sw THEN x[3] ELSE x[6]
           heat == Lt(T, hbp) \/ (hbp = cbp /\ GeR(cbp, Tmax))
           cool == ~heat /\ (GtR(T, cbp) \/ (hbp = cbp /\ Le(hbp, Tmin)))
           beta == IF heat THEN Neg(hb) ELSE IF cool THEN cb ELSE Zero
           bp   == IF heat THEN hbp ELSE cbp
           k    == IF heat THEN hk ELSE Neg(ck)
       IN IF IsZero(beta) \/ T = bp THEN <<"flat">> ELSE <<"piece", beta, bp, k>>

\* ---------- fix_full_model_x(x, lo, hi)
Fix(x, lo, hi) ==
  LET sw  == Lt(x[4], x[1])
      hbp == IF sw THEN x[4] ELSE x[1]   hb0 == IF sw THEN x[5] ELSE x[2]   hk0 == IF sw THEN x[6] ELSE x[3]
      cbp == IF sw THEN x[1] ELSE x[4]   cb0 == IF sw THEN x[2] ELSE x[5]   ck0 == IF sw THEN x[3] ELSE x[6]
      cb1 == IF hbp # cbp /\ GeR(cbp, hi) THEN Zero ELSE cb0
      hb1 == IF hbp # cbp /\ ~GeR(cbp, hi) /\ Le(hbp, lo) THEN Zero ELSE hb0
      hk1 == IF IsZero(hb1) THEN Zero ELSE hk0
      ck1 == IF IsZero(cb1) THEN Zero ELSE ck0
  IN <<hbp, hb1, hk1, cbp, cb1, ck1, x[7]>>

\* ---------- get_full_model_x(key, x) -> 7-vector (already Fix'ed with Tmin,Tmax)
Full(key, x) ==
  CASE key = "hdd_tidd_cdd_smooth" -> Fix(x, Tmin, Tmax)
    [] key = "hdd_tidd_cdd" -> Fix(<<x[1], x[2], Zero, x[3], x[4], Zero, x[5]>>, Tmin, Tmax)
    [] key = "c_hdd_tidd_smooth" ->
         Fix(IF Lt(x[2], Zero) THEN <<x[1], Neg(x[2]), x[3], x[1], Zero, Zero, x[4]>>
                               ELSE <<x[1], Zero, Zero, x[1], x[2], x[3], x[4]>>, Tmin, Tmax)
    [] key = "c_hdd_tidd" ->
         LET bp == IF Lt(x[1], Tminseg) THEN Tminseg ELSE IF GtR(x[1], Tmaxseg) THEN Tmaxseg ELSE x[1]
         IN Fix(IF Lt(x[2], Zero) THEN <<bp, Neg(x[2]), Zero, bp, Zero, Zero, x[3]>>
                                  ELSE <<bp, Zero, Zero, bp, x[2], Zero, x[3]>>, Tmin, Tmax)
    [] key = "tidd" -> Fix(<<Zero, Zero, Zero, Zero, Zero, Zero, x[1]>>, Tmin, Tmax)

\* ---------- get_k
GetK(hbp, hpk, cbp, cpk) ==
  LET s == Smooth(hbp, hpk, cbp, cpk)
      a == IF GeR(hbp, Tmaxseg)
           THEN LET hk == Zero IN <<hbp, hk, IF IsZero(s[4]) THEN hbp ELSE s[3], s[4]>>
           ELSE s
      b == IF Le(cbp, Tminseg)
           THEN LET ck == Zero IN <<IF IsZero(a[2]) THEN cbp ELSE a[1], a[2], cbp, ck>>
           ELSE a
  IN b

\* ---------- reduce_model -> <<key, x>>
RECURSIVE Reduce(_, _)
Reduce(x, key) ==
  LET hbp == x[1]  hb == x[2]  hpk == x[3]  cbp == x[4]  cb == x[5]  cpk == x[6]  c == x[7]
      hz == IsZero(hb)  cz == IsZero(cb)  hkz == IsZero(hpk)  ckz == IsZero(cpk) IN
  IF ~cz /\ ~hz /\ (~ckz \/ ~hkz) THEN <<"hdd_tidd_cdd_smooth", <<hbp, hb, hpk, cbp, cb, cpk, c>>>>
  ELSE IF ~cz /\ ~hz THEN <<"hdd_tidd_cdd", <<hbp, hb, cbp, cb, c>>>>
  ELSE IF ~hz /\ cz /\ ~hkz THEN
       IF key = "hdd_tidd_cdd_smooth"
       THEN LET g == GetK(hbp, hpk, cbp, cpk) IN
            IF IsZero(g[2]) /\ IsZero(g[4])
            THEN Reduce(<<g[1], hb, g[2], g[3], cb, g[4], c>>, "c_hdd_tidd_smooth")
            ELSE <<"c_hdd_tidd_smooth", <<g[1], Neg(hb), g[2], c>>>>
       ELSE <<"c_hdd_tidd_smooth", <<hbp, Neg(hb), hpk, c>>>>
  ELSE IF hz /\ ~cz /\ ~ckz THEN
       IF key = "hdd_tidd_cdd_smooth"
       THEN LET g == GetK(hbp, hpk, cbp, cpk) IN
            IF IsZero(g[2]) /\ IsZero(g[4])
            THEN Reduce(<<g[1], hb, g[2], g[3], cb, g[4], c>>, "c_hdd_tidd_smooth")
            ELSE <<"c_hdd_tidd_smooth", <<g[3], cb, g[4], c>>>>
       ELSE <<"c_hdd_tidd_smooth", <<cbp, cb, cpk, c>>>>
  ELSE IF ~hz /\ cz THEN <<"c_hdd_tidd", <<IF GeR(hbp, Tmaxseg) THEN Tmaxseg ELSE hbp, Neg(hb), c>>>>
  ELSE IF hz /\ ~cz THEN <<"c_hdd_tidd", <<IF Le(cbp, Tminseg) THEN Tminseg ELSE cbp, cb, c>>>>
  ELSE <<"tidd", <<c>>>>

\* ---------- the two paths
EvalPathArgs(x) == LET s == Smooth(x[1], x[3], x[4], x[6]) IN <<s[1], x[2], s[2], s[3], x[5], s[4], x[7]>>
Refined(x) == Reduce(Full("hdd_tidd_cdd_smooth", x), "hdd_tidd_cdd_smooth")
ReadBackArgs(x) ==
  LET r == Refined(x)
      f == Full(r[1], r[2])
  IN IF r[1] = "hdd_tidd_cdd_smooth"
     THEN LET s == Smooth(f[1], f[3], f[4], f[6]) IN <<s[1], f[2], s[2], s[3], f[5], s[4], f[7]>>
     ELSE f

SameCurve(x) == \A T \in Probes : Desc(EvalPathArgs(x), T) = Desc(ReadBackArgs(x), T)

Init == raw \in (BPs \X Betas \X PKs \X BPs \X Betas \X PKs \X {C0}) /\ phase = "raw"
Next == phase = "raw" /\ phase' = "done" /\ UNCHANGED raw
Spec == Init /\ [][Next]_vars
CurveIdentity == SameCurve(raw)
CurveIdentityInBox == (GeR(raw[1], Tminseg) /\ Le(raw[1], Tmaxseg) /\ GeR(raw[4], Tminseg) /\ Le(raw[4], Tmaxseg)) => SameCurve(raw)
=============================================================================
