SPECIFICATION Spec
CONSTANTS
  BPs = {30, 50, 70}
  Betas <- BetasQ
  Pcts <- PctsQ
INVARIANT BoundsOrdered
INVARIANT ContinuousAtTheFlatPart
INVARIANT BoundsMonotoneOutwards
INVARIANT FlatPartNonEmpty
