SPECIFICATION Spec
CONSTANTS
  BPs = {30, 45, 50, 70}
  Betas <- BetasT
  Pcts <- PctsT
INVARIANT BoundsOrdered
INVARIANT ContinuousAtTheFlatPart
INVARIANT BoundsMonotoneOutwards
INVARIANT FlatPartNonEmpty
