SPECIFICATION Spec
CONSTANTS
  BPs = {25, 30, 45, 50, 65, 70}
  Betas <- BetasT
  Pcts <- PctsT
INVARIANT BoundsOrdered
INVARIANT ContinuousAtTheFlatPart
INVARIANT BoundsMonotoneOutwards
INVARIANT FlatPartNonEmpty
