--------------------------------- MODULE Fit ---------------------------------
(* Enumeration of the fits replayed for C12 (family x profile x dataset).  The   *)
(* exhaustive structural half of C12 is CurveImpl.tla (raw optimiser vectors);   *)
(* here the type table is checked: the seven types carry distinct coefficient    *)
(* sets, smooth types are exactly those that carry a k.                          *)
EXTENDS FitDefs
CONSTANTS Datasets, Profiles, QuickOnly
VARIABLES in, out, pc
vars == <<in, out, pc>>
Init == /\ \/ \E p \in Profiles, n \in Datasets :
             /\ (QuickOnly /\ p[2] = "current" => n \in {"good", "regimes", "latecool", "levelshift", "inverted", "flatn2", "summerzero", "vshape"})      \* a default-profile fit takes 10 s
             /\ in = [fam |-> p[1], prof |-> p[2], name |-> n, prior |-> "none"]
           \* the same model OBJECT was fitted on another meter before: every component must be the one a fresh object would get
           \/ \E p \in Profiles, c \in {<<"good", "heatonly">>, <<"coolonly", "good">>, <<"other", "flat">>, <<"regimes", "other">>} :
                /\ p[2] # "current"
                /\ in = [fam |-> p[1], prof |-> p[2], name |-> c[1], prior |-> c[2]]
        /\ out = [res |-> "pending"] /\ pc = "call"
Call == pc = "call" /\ out' = [res |-> "modelled"] /\ pc' = "done" /\ UNCHANGED in
Next == Call
Spec == Init /\ [][Next]_vars
Types == {"hdd_tidd_cdd_smooth", "hdd_tidd_cdd", "hdd_tidd_smooth", "tidd_cdd_smooth", "hdd_tidd", "tidd_cdd", "tidd"}
TypeTableInjective == \A a, b \in Types : Carries(a) = Carries(b) => a = b
SmoothIffCarriesK == \A t \in Types : (("hdd_k" \in Carries(t)) \/ ("cdd_k" \in Carries(t))) <=> t \in {"hdd_tidd_cdd_smooth", "hdd_tidd_smooth", "tidd_cdd_smooth"}
ProfAll == {<<"daily", "legacy">>, <<"billing", "billing">>, <<"daily", "current">>}
DataQuick == {"good", "other", "regimes", "weekend", "flat", "heatonly", "coolonly", "latecool", "lateheat", "levelshift", "inverted", "flatn1", "flatn2", "flatn3", "flatn4", "summerzero", "vshape", "vshape2", "vshape3"}
DataAll == DataQuick \cup {"noisy", "outliers", "short330", "mild", "flatn5", "flatn6", "flatn7", "flatn8"}
=============================================================================
