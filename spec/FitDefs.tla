------------------------------- MODULE FitDefs -------------------------------
(***************************************************************************)
(* C12 - admissibility and well-formedness of every fitted daily / billing *)
(* sub-model, as relations measured on the real optimiser outcome.         *)
(*  in  = [fam, prof, name]      a real fit of dataset `name`              *)
(*  out = [res, comps]   one record per component of the fit (every        *)
(*        candidate component and every sub-model of the chosen split):    *)
(*     [id, final, mtype, present, finite, bpOrdered, bpInRange,           *)
(*      slopeSigns, slopesNonZero, kNonNeg, baseInRange, funcOk, limitsOk, *)
(*      curveOk, rawClass, key]                                            *)
(*     present: sequence of the coefficient names the sub-model carries;   *)
(*     the booleans are order / sign relations evaluated on the doubles;   *)
(*     rawClass: where the optimiser's raw vector lay (hook): "inBox",     *)
(*     "deadSideK", "bpOnBound", "crossed", "clampedSingle"                 *)
(***************************************************************************)
EXTENDS Integers, Sequences, FiniteSets, TLC

Set(s) == {s[i] : i \in 1..Len(s)}
Carries(mtype) ==
  CASE mtype = "hdd_tidd_cdd_smooth" -> {"hdd_bp", "hdd_beta", "hdd_k", "cdd_bp", "cdd_beta", "cdd_k"}
    [] mtype = "hdd_tidd_cdd"        -> {"hdd_bp", "hdd_beta", "cdd_bp", "cdd_beta"}
    [] mtype = "hdd_tidd_smooth"     -> {"hdd_bp", "hdd_beta", "hdd_k"}
    [] mtype = "tidd_cdd_smooth"     -> {"cdd_bp", "cdd_beta", "cdd_k"}
    [] mtype = "hdd_tidd"            -> {"hdd_bp", "hdd_beta"}
    [] mtype = "tidd_cdd"            -> {"cdd_bp", "cdd_beta"}
    [] mtype = "tidd"                -> {}
    [] OTHER                          -> {"unknown type"}
\* curve identity is reported per cell of the partition (model key after refinement) x (class of the optimiser's raw vector)
Keys == <<"hdd_tidd_cdd_smooth", "hdd_tidd_cdd", "c_hdd_tidd_smooth", "c_hdd_tidd", "tidd">>
Classes == <<"inBox", "deadSideK", "bpOnBound", "crossed", "clampedSingle">>
CurveCells == [p \in 1..(Len(Keys) * Len(Classes)) |-> <<Keys[((p - 1) \div Len(Classes)) + 1], Classes[((p - 1) % Len(Classes)) + 1]>>]
All(out, f(_)) == \A k \in 1..Len(out.comps) : f(out.comps[k])
Clauses(in, out) ==
  LET ok == out.res = "ok" IN
  << <<"FitReturns", ok /\ Len(out.comps) >= 1>>,
     <<"CoefficientsFinite", ok => All(out, LAMBDA c : c.finite)>>,
     <<"DeclaredTypeAgreesWithCoefficientsPresent", ok => All(out, LAMBDA c : Set(c.present) = Carries(c.mtype))>>,
     <<"HeatingBalancePointNotAboveCooling", ok => All(out, LAMBDA c : c.bpOrdered)>>,
     <<"BalancePointsInsideObservedTemperatures", ok => All(out, LAMBDA c : c.bpInRange)>>,
     <<"SlopesRiseAwayFromTheBalancePoint", ok => All(out, LAMBDA c : c.slopeSigns)>>,
     <<"EveryDeclaredSlopeNonZero", ok => All(out, LAMBDA c : c.slopesNonZero)>>,
     <<"SmoothingNonNegative", ok => All(out, LAMBDA c : c.kNonNeg)>>,
     <<"BaseLoadWithinObservedUsage", ok => All(out, LAMBDA c : c.baseInRange)>>,
     <<"UncertaintyFiniteNonNegative", ok => All(out, LAMBDA c : c.funcOk)>>,
     <<"TemperatureLimitsAreThoseOfTheFittedDays", ok => All(out, LAMBDA c : c.limitsOk)>>,
     \* "the fitted days" are days of the baseline that was handed to THIS fit (not of one the object was fitted on before)
     <<"FittedDaysAreDaysOfTheGivenBaseline", ok => All(out, LAMBDA c : c.ownData)>>,
     <<"TemperatureLimitsRecorded", TRUE>> >>
  \o [p \in 1..Len(CurveCells) |->
        <<"StoredCoefficientsDescribeTheScoredCurve_" \o CurveCells[p][1] \o "_" \o CurveCells[p][2],
          ok => All(out, LAMBDA c : (c.key = CurveCells[p][1] /\ c.rawClass = CurveCells[p][2]) => c.curveOk)>>]
  \o << <<"RawVectorClassified", ok => All(out, LAMBDA c : <<c.key, c.rawClass>> \in {CurveCells[p] : p \in 1..Len(CurveCells)})>> >>
Failing(in, out) == LET c == Clauses(in, out) IN {c[k][1] : k \in {k \in 1..Len(c) : ~c[k][2]}}
=============================================================================
