SPECIFICATION Spec
CONSTANTS
  Datasets <- DataQuick
  Profiles <- ProfAll
  QuickOnly = TRUE
INVARIANT TypeTableInjective
INVARIANT SmoothIffCarriesK
