SPECIFICATION Spec
CONSTANTS
  Datasets <- DataAll
  Profiles <- ProfAll
  QuickOnly = FALSE
INVARIANT TypeTableInjective
INVARIANT SmoothIffCarriesK
