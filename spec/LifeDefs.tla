------------------------------ MODULE LifeDefs ------------------------------
(***************************************************************************)
(* Lifecycle P-layer, shared by the bounded model (Lifecycle.tla) and the  *)
(* trace specification (LifecycleTrace.tla): what one public call of a     *)
(* model / data object may do to the abstract state, stated exactly as the *)
(* properties C01..C05 word it.                                            *)
(*                                                                         *)
(* Abstract model record                                                   *)
(*   [st, fam, prof, seed, core, dq, tz, fullcal, via]                     *)
(*     st      "new" | "fitted"                                            *)
(*     core    uninterpreted identity of the fitted content                *)
(*     dq      set of disqualification names the model carries             *)
(*     via     "fit" | "load"                                              *)
(* Abstract data record                                                    *)
(*   [kind, fam, tz, sig, wx, obs, dq, fullcal]                            *)
(*     sig     identity of the dataset content (catalogue id)              *)
(*     wx      identity of weather + calendar; obs: variant of `observed`  *)
(***************************************************************************)
EXTENDS Integers, Sequences, FiniteSets, TLC

SeededFams == {"hourly"}              \* families whose fit takes an explicit seed
GatedFams  == {"daily", "billing", "hourly"}   \* the CalTRACK hourly wrapper has no gate (not in C04's statement either)

NewModel(fam, prof, seed) ==
  [st |-> "new", fam |-> fam, prof |-> prof, seed |-> seed, core |-> <<"none">>, dq |-> {}, tz |-> "", fullcal |-> FALSE, via |-> "new"]

Core(m, d) == <<"core", m.fam, m.prof, IF m.fam \in SeededFams THEN m.seed ELSE 0, d.sig>>

\* poor-fit rule (C16/C04): hourly - misses BOTH thresholds; daily/billing - CVRMSE above its threshold
PoorNames(fam, gate) ==
  IF fam = "hourly" THEN (IF ~(gate.cv_ok \/ gate.pn_ok) THEN {"eemeter.model_fit_metrics"} ELSE {})
  ELSE IF fam \in {"daily", "billing"} THEN (IF gate.cv_gt THEN {"eemeter.model_fit_metrics.cvrmse"} ELSE {})
  ELSE {}

\* ---- fit
FitBlocked(m, d, ign) == m.fam \in GatedFams /\ d.dq # {} /\ ~ign
FitOutcomes(m, d, ign) == IF FitBlocked(m, d, ign) THEN {"DataSufficiencyError"} ELSE {"ok"}
Fitted(m, d, gate) ==
  [m EXCEPT !.st = "fitted", !.core = Core(m, d), !.dq = d.dq \cup PoorNames(m.fam, gate), !.tz = d.tz,
            !.fullcal = d.fullcal, !.via = "fit"]

\* ---- predict
AggOk == {"none", "None", "monthly", "bimonthly"}     \* "None" stands for the python None argument
Faults(m, d, ign, agg) ==
  (IF m.st # "fitted" THEN {"unfitted"} ELSE {})
  \cup (IF m.st = "fitted" /\ m.fam \in GatedFams /\ m.dq # {} /\ ~ign THEN {"disqualified"} ELSE {})
  \cup (IF m.fam \in GatedFams /\ d.fam # m.fam THEN {"foreign"} ELSE {})
  \cup (IF m.st = "fitted" /\ m.fam \in GatedFams /\ m.tz # d.tz THEN {"timezone"} ELSE {})
  \cup (IF m.fam = "billing" /\ agg \notin AggOk THEN {"aggregation"} ELSE {})
\* the statement fixes the exception class only for the gate; the other faults must merely raise
\* the CalTRACK wrapper has no type check of its own (and is not in C04's statement): whether it raises on a data object of
\* another family or happens to get through is not demanded either way
Indifferent(m, d) == m.fam \notin GatedFams /\ d.fam # m.fam
PredictOutcomeOk(m, d, ign, agg, out) ==
  Indifferent(m, d) \/
  LET F == Faults(m, d, ign, agg) IN
  /\ (F = {} => out = "ok")
  /\ (F # {} => out # "ok")
  /\ (F = {"disqualified"} => out = "DisqualifiedModelError")
  /\ (out = "DisqualifiedModelError" => "disqualified" \in F)
\* the counterfactual depends on the fitted content, the weather/calendar and the aggregation only;
\* `observed` may matter only when the baseline does not cover every month and weekday (C05's precondition)
Pred(m, d, agg) == <<"pred", m.core, d.wx, agg, d.obs>>
\* C05: across variants of `observed`, wherever two variants both produce a prediction it is the same number
PredAnyObs(m, d, agg) == <<"predobs", m.core, d.wx, agg>>
ObsIndependenceClaimed(m, agg) == m.fullcal /\ agg \in {"None", "none"}
Json(m) == <<"json", m.core, m.dq>>

\* ---- storage
Doc(m) == [fam |-> m.fam, prof |-> m.prof, seed |-> m.seed, core |-> m.core, dq |-> m.dq, tz |-> m.tz, fullcal |-> m.fullcal]
Loaded(doc) == [st |-> "fitted", fam |-> doc.fam, prof |-> doc.prof, seed |-> doc.seed, core |-> doc.core, dq |-> doc.dq,
                tz |-> doc.tz, fullcal |-> doc.fullcal, via |-> "load"]
=============================================================================
