------------------------------ MODULE LifeImpl ------------------------------
(***************************************************************************)
(* I-layer of the Lifecycle module: the hidden mutable state the library   *)
(* keeps behind fit / predict / to_json / from_json, as the code is        *)
(* written - python lists are heap cells shared by reference, the hourly   *)
(* temporal-cluster table is model state, the stored document is built     *)
(* from a snapshot (`params`) taken inside _fit.                           *)
(*                                                                         *)
(* Three repairs made in /repo are switches of this model, so that TLC     *)
(* says which life-cycle theorem each one is needed for:                   *)
(*   CopyLists      (commit 4afff0ca) fit copies the data object's         *)
(*                  warning / disqualification lists instead of sharing    *)
(*                  them;                                                  *)
(*   LocalClusters  (commit bf57b4b9) predict keeps the re-indexed cluster *)
(*                  table local instead of assigning it to the model;      *)
(*   RefreshParams  (commit 29f9c0e7) the poor-fit disqualification is     *)
(*                  written to the snapshot that to_json serialises.       *)
(* Four more switches are HAZARDS: ways in which hidden state could be     *)
(* shared, each observed in a seeded change (DESIGN section 9.2b), none in  *)
(* the current tree:                                                       *)
(*   OwnScalers     a restored model owns its scalers (off: from_dict      *)
(*                  writes into class-level scaler objects);               *)
(*   CopyOnHandOut  predict hands out a fresh frame (off: predict on the   *)
(*                  object the model was fitted on returns the cached      *)
(*                  baseline prediction itself);                           *)
(*   KeyedMemo      what a fit computes depends on its own inputs (off: a  *)
(*                  process-wide memo keyed too coarsely is filled by the  *)
(*                  first fit and read by every later one);                *)
(*   RejectKeeps    a rejected fit leaves the model as it was (off: it     *)
(*                  resets the model's disqualification list first);       *)
(*   OwnMaps        a model routes days with the calendar maps of its own  *)
(*                  settings (off: the constructor writes them into a      *)
(*                  class-level table - those of the model built last).    *)
(* For each hazard TLC returns the SHORTEST history that exposes it; these *)
(* histories are the rare sequence features the replay cover must contain  *)
(* (engine/life.py RARE) - the I-layer is where they come from.            *)
(* With all three TRUE (the current tree) every theorem below holds; with  *)
(* any one FALSE TLC returns a minimal history violating the theorem(s)    *)
(* named in Expect.  The checks run all four configurations               *)
(* (engine/lifeimpl.py); tools/try_revert.sh reverts the corresponding     *)
(* commit in a scratch worktree and the trace validation of the real code  *)
(* rejects the same histories under the P-layer clause of the same name.   *)
(***************************************************************************)
EXTENDS Integers, FiniteSets, Sequences, TLC
CONSTANTS Slots, CopyLists, LocalClusters, RefreshParams, MaxCalls,
          OwnScalers, CopyOnHandOut, KeyedMemo, RejectKeeps, OwnMaps
None == "none"
Baselines == {"good", "poor", "short"}     \* "poor": fit is poor; "short": the data object carries a sufficiency disqualification
Reports   == {"week", "year"}
Combos    == [week |-> {"c1"}, year |-> {"c1", "c2", "c3"}]      \* (month, weekday) cells a report touches
AllCombos == {"c1", "c2", "c3"}
DataCell(b) == "L_" \o b
ModelCell(s) == "M_" \o s
ScalerCell(s) == "S_" \o s
CacheCell(s) == "F_" \o s
MapsCell(s) == IF OwnMaps THEN "P_" \o s ELSE "P_class"
Cells == {DataCell(b) : b \in Baselines} \cup {ModelCell(s) : s \in Slots} \cup {ScalerCell(s) : s \in Slots} \cup {CacheCell(s) : s \in Slots}
         \cup {"P_" \o s : s \in Slots} \cup {"P_class"}
         \cup {"S_class", "MEMO", "U"}      \* class-level scaler objects, a process-wide memo, a frame copy owned by the caller
VARIABLES heap,     \* [Cells -> set of dq names]: the python list objects
          model,    \* [Slots -> [st, base, dq (a cell or None), pdq (snapshot that is serialised), clusters]]
          store,    \* sequence of documents [base, dq]
          last,     \* observation of the last call
          held,     \* the cell behind the frame the caller received last (None: none)
          ncalls
vars == <<heap, model, store, last, held, ncalls>>
NoModel == [st |-> "new", base |-> None, dq |-> None, pdq |-> {}, clusters |-> {}, scaler |-> None, stats |-> None, cache |-> None, map |-> "default"]
\* two documents written by an earlier process: a qualified and a poor-fit model
Doc(b, dq) == [base |-> b, dq |-> dq, scaler |-> {b}, stats |-> b]
Init == /\ heap = [c \in Cells |-> IF c = DataCell("short") THEN {"length"} ELSE IF c \in {"P_" \o s : s \in Slots} \cup {"P_class"} THEN {"default"} ELSE {}]
        /\ model = [s \in Slots |-> NoModel]
        /\ store = <<Doc("good", {}), Doc("poor", {"poorfit"})>> /\ last = [op |-> "init"] /\ held = None /\ ncalls = 0
Tick == ncalls < MaxCalls /\ ncalls' = ncalls + 1

Fit(s, b, ign) ==
  /\ Tick /\ held' = held
  /\ IF heap[DataCell(b)] # {} /\ ~ign
     THEN /\ last' = [op |-> "fit", s |-> s, b |-> b, out |-> "DataSufficiencyError"] /\ UNCHANGED <<model, store>>
          /\ heap' = IF RejectKeeps \/ model[s].dq = None THEN heap ELSE [heap EXCEPT ![model[s].dq] = {}]
     ELSE LET cell == IF CopyLists THEN ModelCell(s) ELSE DataCell(b)      \* self.disqualification = (copy of) baseline_data.disqualification
              h1   == IF CopyLists THEN [heap EXCEPT ![cell] = heap[DataCell(b)]] ELSE heap
              snap == h1[cell]                                               \* params.info.disqualification, taken inside _fit
              h2   == IF b = "poor" THEN [h1 EXCEPT ![cell] = @ \cup {"poorfit"}] ELSE h1      \* .append(cvrmse_warning) after _fit
              memo == IF h2["MEMO"] = {} THEN {b} ELSE h2["MEMO"]            \* filled by the first fit of the process
              stat == IF KeyedMemo THEN b ELSE CHOOSE x \in memo : TRUE
              h3   == [h2 EXCEPT !["MEMO"] = memo, ![ScalerCell(s)] = {b}, ![CacheCell(s)] = {b}]      \* the fit path clones its scalers
          IN /\ heap' = h3
             /\ model' = [model EXCEPT ![s] = [st |-> "fitted", base |-> b, dq |-> cell,
                                               pdq |-> IF RefreshParams THEN h2[cell] ELSE snap, clusters |-> AllCombos,
                                               scaler |-> ScalerCell(s), stats |-> stat, cache |-> CacheCell(s), map |-> model[s].map]]
             /\ last' = [op |-> "fit", s |-> s, b |-> b, out |-> "ok"] /\ UNCHANGED store

Predict(s, r, ign) ==
  /\ Tick /\ model[s].st = "fitted"
  /\ IF heap[model[s].dq] # {} /\ ~ign
     THEN last' = [op |-> "predict", s |-> s, r |-> r, ign |-> ign, out |-> "DisqualifiedModelError"] /\ UNCHANGED <<heap, model, store, held>>
     ELSE \* the value depends on which (month, weekday) cells still have a fitted cluster and on the scaler contents; the table is re-indexed to the report
          /\ last' = [op |-> "predict", s |-> s, r |-> r, ign |-> ign, out |-> "ok", val |-> <<model[s].base, r, Combos[r] \cap model[s].clusters>>,
                       scaled |-> heap[model[s].scaler], routed |-> heap[MapsCell(s)]]
          /\ model' = IF LocalClusters THEN model ELSE [model EXCEPT ![s].clusters = Combos[r]]
          /\ UNCHANGED <<heap, store, held>>

\* predict on the very data object the model was fitted on (models fitted in this process keep that prediction)
PredictOwn(s, ign) ==
  /\ Tick /\ model[s].st = "fitted" /\ model[s].cache # None
  /\ IF heap[model[s].dq] # {} /\ ~ign
     THEN last' = [op |-> "predictown", s |-> s, ign |-> ign, out |-> "DisqualifiedModelError"] /\ UNCHANGED <<heap, model, store, held>>
     ELSE /\ last' = [op |-> "predictown", s |-> s, ign |-> ign, out |-> "ok", frame |-> heap[model[s].cache]]
          /\ IF CopyOnHandOut THEN held' = "U" /\ heap' = [heap EXCEPT !["U"] = heap[model[s].cache]]
                               ELSE held' = model[s].cache /\ heap' = heap
          /\ UNCHANGED <<model, store>>

\* a model object is constructed in slot s with the weekday map mp of its settings
Configure(s, mp) ==
  /\ Tick /\ model[s].st = "new"
  /\ heap' = [heap EXCEPT ![MapsCell(s)] = {mp}]
  /\ model' = [model EXCEPT ![s].map = mp]
  /\ last' = [op |-> "configure", s |-> s] /\ UNCHANGED <<store, held>>

\* the caller overwrites the frame it received
Scribble == /\ Tick /\ held # None
            /\ heap' = [heap EXCEPT ![held] = {"scribbled"}]
            /\ last' = [op |-> "scribble"] /\ UNCHANGED <<model, store, held>>

Save(s) ==
  /\ Tick /\ model[s].st = "fitted"
  /\ store' = Append(store, [base |-> model[s].base, dq |-> model[s].pdq, scaler |-> heap[model[s].scaler], stats |-> model[s].stats])
  /\ last' = [op |-> "save", s |-> s] /\ UNCHANGED <<heap, model, held>>

Load(s, k) ==
  /\ Tick /\ k \in 1..Len(store) /\ model[s].st = "new"
  /\ LET sc == IF OwnScalers THEN ScalerCell(s) ELSE "S_class" IN
     /\ heap' = [heap EXCEPT ![ModelCell(s)] = store[k].dq, ![sc] = store[k].scaler]
     /\ model' = [model EXCEPT ![s] = [st |-> "fitted", base |-> store[k].base, dq |-> ModelCell(s), pdq |-> store[k].dq, clusters |-> AllCombos,
                                       scaler |-> sc, stats |-> store[k].stats, cache |-> None, map |-> model[s].map]]
  /\ last' = [op |-> "load", s |-> s, k |-> k] /\ UNCHANGED <<store, held>>

Next == \/ \E s \in Slots, b \in Baselines, ign \in BOOLEAN : Fit(s, b, ign)
        \/ \E s \in Slots, r \in Reports, ign \in BOOLEAN : Predict(s, r, ign)
        \/ \E s \in Slots : Save(s)
        \/ \E s \in Slots, k \in 1..Len(store) : Load(s, k)
        \/ \E s \in Slots, ign \in BOOLEAN : PredictOwn(s, ign)
        \/ Scribble
        \/ \E s \in Slots, mp \in {"default", "frisat"} : Configure(s, mp)
Spec == Init /\ [][Next]_vars

----------------------------------------------------------------------------
\* the P-layer theorems, stated on this state (names of the LifecycleTrace clauses they correspond to in brackets)
\* [FitLeavesDataAlone] no call changes a data object's disqualification list
DataImmutable == [][ \A b \in Baselines : heap'[DataCell(b)] = heap[DataCell(b)] ]_vars
\* [PredictPure] predict changes nothing
PredictPure   == [][ last'.op = "predict" => (model' = model /\ heap' = heap /\ store' = store) ]_vars
\* [PredSameAfterReload] a restored model scales with the values of its OWN document, whatever else was restored since
RestoredModelsIndependent == (last.op = "predict" /\ last.out = "ok") => last.scaled = {model[last.s].base}
\* [ReserialisesToSameDocument] ... and writes them back
ResavedScalerIsOwn == \A s \in Slots : (last.op = "save" /\ last.s = s) => store[Len(store)].scaler = {model[s].base}
\* [HandedOutFramesAreCopies / PredSameAcrossHistory] what the caller does to a returned frame never shows in a later prediction
HandOutsAreCopies == (last.op = "predictown" /\ last.out = "ok") => last.frame = {model[last.s].base}
\* [EachDayPredictedByTheSubModelOfItsCell] a model routes days with the maps of its OWN settings, whatever was constructed since
RoutesWithItsOwnMaps == (last.op = "predict" /\ last.out = "ok") => last.routed = {model[last.s].map}
\* [FitJsonSameAcrossFits / ReportedStatisticsAreThoseOfTheLastFit] what a fit reports depends on its own data only
FitDependsOnItsOwnData == \A s \in Slots : model[s].st = "fitted" => model[s].stats = model[s].base
\* [FitReturnsOrDataSufficiencyError] fit raises exactly when the DATA carries a disqualification (never because of an earlier fit)
FitRepeatable == (last.op = "fit" /\ last.out = "DataSufficiencyError") => last.b = "short"
\* [PredSameAcrossHistory] a prediction does not depend on earlier predictions: all cells of the report have a fitted cluster
PredStable    == (last.op = "predict" /\ last.out = "ok") => last.val[3] = Combos[last.r]
\* [LoadKeepsDisqualifications] the stored document carries the disqualifications of the model that wrote it
StoredDqIsModelDq == \A s \in Slots : (last.op = "save" /\ last.s = s) => store[Len(store)].dq = heap[model[s].dq]
\* [PredictGate] a model loaded from the document of a disqualified model is disqualified
GateSurvivesStorage ==
  \A s \in Slots : (last.op = "predict" /\ last.out = "ok" /\ last.s = s /\ ~last.ign) =>
       ~(model[s].base \in {"poor", "short"})
=============================================================================
