------------------------------ MODULE LifeImpl ------------------------------
(***************************************************************************)
(* I-layer of the Lifecycle module: the hidden mutable state the library   *)
(* keeps behind fit / predict / to_json / from_json, as the code is        *)
(* written - python lists are heap cells shared by reference, the hourly   *)
(* temporal-cluster table is model state, the stored document is built     *)
(* from a snapshot (`params`) taken inside _fit.                           *)
(*                                                                         *)
(* Three repairs made in /repo are switches of this model, so that TLC     *)
(* says which life-cycle theorem each one is needed for:                   *)
(*   CopyLists      (commit 4afff0ca) fit copies the data object's         *)
(*                  warning / disqualification lists instead of sharing    *)
(*                  them;                                                  *)
(*   LocalClusters  (commit bf57b4b9) predict keeps the re-indexed cluster *)
(*                  table local instead of assigning it to the model;      *)
(*   RefreshParams  (commit 29f9c0e7) the poor-fit disqualification is     *)
(*                  written to the snapshot that to_json serialises.       *)
(* With all three TRUE (the current tree) every theorem below holds; with  *)
(* any one FALSE TLC returns a minimal history violating the theorem(s)    *)
(* named in Expect.  The checks run all four configurations               *)
(* (engine/lifeimpl.py); tools/try_revert.sh reverts the corresponding     *)
(* commit in a scratch worktree and the trace validation of the real code  *)
(* rejects the same histories under the P-layer clause of the same name.   *)
(***************************************************************************)
EXTENDS Integers, FiniteSets, Sequences, TLC
CONSTANTS Slots, CopyLists, LocalClusters, RefreshParams, MaxCalls
None == "none"
Baselines == {"good", "poor", "short"}     \* "poor": fit is poor; "short": the data object carries a sufficiency disqualification
Reports   == {"week", "year"}
Combos    == [week |-> {"c1"}, year |-> {"c1", "c2", "c3"}]      \* (month, weekday) cells a report touches
AllCombos == {"c1", "c2", "c3"}
DataCell(b) == "L_" \o b
ModelCell(s) == "M_" \o s
Cells == {DataCell(b) : b \in Baselines} \cup {ModelCell(s) : s \in Slots}
VARIABLES heap,     \* [Cells -> set of dq names]: the python list objects
          model,    \* [Slots -> [st, base, dq (a cell or None), pdq (snapshot that is serialised), clusters]]
          store,    \* sequence of documents [base, dq]
          last,     \* observation of the last call
          ncalls
vars == <<heap, model, store, last, ncalls>>
NoModel == [st |-> "new", base |-> None, dq |-> None, pdq |-> {}, clusters |-> {}]
Init == /\ heap = [c \in Cells |-> IF c = DataCell("short") THEN {"length"} ELSE {}]
        /\ model = [s \in Slots |-> NoModel]
        /\ store = <<>> /\ last = [op |-> "init"] /\ ncalls = 0
Tick == ncalls < MaxCalls /\ ncalls' = ncalls + 1

Fit(s, b, ign) ==
  /\ Tick
  /\ IF heap[DataCell(b)] # {} /\ ~ign
     THEN last' = [op |-> "fit", s |-> s, b |-> b, out |-> "DataSufficiencyError"] /\ UNCHANGED <<heap, model, store>>
     ELSE LET cell == IF CopyLists THEN ModelCell(s) ELSE DataCell(b)      \* self.disqualification = (copy of) baseline_data.disqualification
              h1   == IF CopyLists THEN [heap EXCEPT ![cell] = heap[DataCell(b)]] ELSE heap
              snap == h1[cell]                                               \* params.info.disqualification, taken inside _fit
              h2   == IF b = "poor" THEN [h1 EXCEPT ![cell] = @ \cup {"poorfit"}] ELSE h1      \* .append(cvrmse_warning) after _fit
          IN /\ heap' = h2
             /\ model' = [model EXCEPT ![s] = [st |-> "fitted", base |-> b, dq |-> cell,
                                               pdq |-> IF RefreshParams THEN h2[cell] ELSE snap, clusters |-> AllCombos]]
             /\ last' = [op |-> "fit", s |-> s, b |-> b, out |-> "ok"] /\ UNCHANGED store

Predict(s, r, ign) ==
  /\ Tick /\ model[s].st = "fitted"
  /\ IF heap[model[s].dq] # {} /\ ~ign
     THEN last' = [op |-> "predict", s |-> s, r |-> r, ign |-> ign, out |-> "DisqualifiedModelError"] /\ UNCHANGED <<heap, model, store>>
     ELSE \* the value depends on which (month, weekday) cells still have a fitted cluster; the table is re-indexed to the report
          /\ last' = [op |-> "predict", s |-> s, r |-> r, ign |-> ign, out |-> "ok", val |-> <<model[s].base, r, Combos[r] \cap model[s].clusters>>]
          /\ model' = IF LocalClusters THEN model ELSE [model EXCEPT ![s].clusters = Combos[r]]
          /\ UNCHANGED <<heap, store>>

Save(s) ==
  /\ Tick /\ model[s].st = "fitted"
  /\ store' = Append(store, [base |-> model[s].base, dq |-> model[s].pdq])
  /\ last' = [op |-> "save", s |-> s] /\ UNCHANGED <<heap, model>>

Load(s, k) ==
  /\ Tick /\ k \in 1..Len(store) /\ model[s].st = "new"
  /\ heap' = [heap EXCEPT ![ModelCell(s)] = store[k].dq]
  /\ model' = [model EXCEPT ![s] = [st |-> "fitted", base |-> store[k].base, dq |-> ModelCell(s), pdq |-> store[k].dq, clusters |-> AllCombos]]
  /\ last' = [op |-> "load", s |-> s, k |-> k] /\ UNCHANGED store

Next == \/ \E s \in Slots, b \in Baselines, ign \in BOOLEAN : Fit(s, b, ign)
        \/ \E s \in Slots, r \in Reports, ign \in BOOLEAN : Predict(s, r, ign)
        \/ \E s \in Slots : Save(s)
        \/ \E s \in Slots, k \in 1..Len(store) : Load(s, k)
Spec == Init /\ [][Next]_vars

----------------------------------------------------------------------------
\* the P-layer theorems, stated on this state (names of the LifecycleTrace clauses they correspond to in brackets)
\* [FitLeavesDataAlone] no call changes a data object's disqualification list
DataImmutable == [][ \A b \in Baselines : heap'[DataCell(b)] = heap[DataCell(b)] ]_vars
\* [PredictPure] predict changes nothing
PredictPure   == [][ last'.op = "predict" => (model' = model /\ heap' = heap /\ store' = store) ]_vars
\* [FitReturnsOrDataSufficiencyError] fit raises exactly when the DATA carries a disqualification (never because of an earlier fit)
FitRepeatable == (last.op = "fit" /\ last.out = "DataSufficiencyError") => last.b = "short"
\* [PredSameAcrossHistory] a prediction does not depend on earlier predictions: all cells of the report have a fitted cluster
PredStable    == (last.op = "predict" /\ last.out = "ok") => last.val[3] = Combos[last.r]
\* [LoadKeepsDisqualifications] the stored document carries the disqualifications of the model that wrote it
StoredDqIsModelDq == \A s \in Slots : (last.op = "save" /\ last.s = s) => store[Len(store)].dq = heap[model[s].dq]
\* [PredictGate] a model loaded from the document of a disqualified model is disqualified
GateSurvivesStorage ==
  \A s \in Slots : (last.op = "predict" /\ last.out = "ok" /\ last.s = s /\ ~last.ign) =>
       ~(model[s].base \in {"poor", "short"})
=============================================================================
