SPECIFICATION Spec
CONSTANTS
  Slots = {"s1", "s2"}
  MaxCalls = 5
  CopyLists = TRUE
  LocalClusters = FALSE
  RefreshParams = TRUE
  OwnScalers = TRUE
  CopyOnHandOut = TRUE
  KeyedMemo = TRUE
  RejectKeeps = TRUE
  OwnMaps = TRUE
INVARIANT FitRepeatable
INVARIANT PredStable
INVARIANT StoredDqIsModelDq
INVARIANT GateSurvivesStorage
INVARIANT RestoredModelsIndependent
INVARIANT ResavedScalerIsOwn
INVARIANT HandOutsAreCopies
INVARIANT FitDependsOnItsOwnData
INVARIANT RoutesWithItsOwnMaps
PROPERTY DataImmutable
PROPERTY PredictPure
