SPECIFICATION Spec
CONSTANTS
  Slots = {"s1", "s2"}
  MaxCalls = 5
  CopyLists = TRUE
  LocalClusters = TRUE
  RefreshParams = FALSE
INVARIANT FitRepeatable
INVARIANT PredStable
INVARIANT StoredDqIsModelDq
INVARIANT GateSurvivesStorage
PROPERTY DataImmutable
PROPERTY PredictPure
