------------------------------- MODULE LifeMC -------------------------------
(* Model-checking instances of Lifecycle: catalogue and history templates.   *)
(* Data ids are self-describing ("b:<name>", "r:<weather>:<observed variant>", *)
(* "x:<weather>" / "y:<weather>" = a reporting object of a foreign family: another granularity / the sibling family); the driver        *)
(* realises them by name (drivers/lifecat.py), the attributes below only      *)
(* steer the bounded model - trace validation binds them from the trace.      *)
EXTENDS Lifecycle

D(kind, fam, tz, sig, wx, obs, dq, fullcal, poor) ==
  [kind |-> kind, fam |-> fam, tz |-> tz, sig |-> sig, wx |-> wx, obs |-> obs, dq |-> dq, fullcal |-> fullcal, poor |-> poor]
B(name, tz, dq, fullcal, poor) == D("baseline", Fam, tz, name, name, "orig", dq, fullcal, poor)
R(wx, tz, obs) == D("reporting", Fam, tz, wx, wx, obs, {}, FALSE, FALSE)
X(wx) == D("reporting", "foreign", "C", wx, wx, "orig", {}, FALSE, FALSE)

CatAll ==
  [d \in DataIds |->
     CASE d = "b:good"  -> B("good", "C", {}, TRUE, FALSE)
       [] d = "b:other" -> B("other", "C", {}, TRUE, FALSE)
       [] d = "b:short" -> B("short", "C", {"length"}, FALSE, FALSE)
       [] d = "b:gaps"  -> B("gaps", "C", {"coverage"}, TRUE, FALSE)
       [] d = "b:poor"  -> B("poor", "C", {}, TRUE, TRUE)
       [] d = "b:east"  -> B("east", "E", {}, TRUE, FALSE)
       [] d = "b:allheat" -> B("allheat", "C", {}, TRUE, FALSE)
       [] d = "b:summerzero" -> B("summerzero", "C", {}, TRUE, FALSE)
       [] d = "b:long"  -> B("long", "C", {"length"}, TRUE, FALSE)
       [] d = "b:neggas" -> B("neggas", "C", {"negative"}, TRUE, FALSE)
       [] d = "b:netpoor" -> B("netpoor", "C", {}, TRUE, TRUE)      \* a net-exporting meter (mean usage below zero), usage unrelated to weather
       [] d = "r:wyear:orig"     -> R("wyear", "C", "orig")
       [] d = "r:wyear:x3"       -> R("wyear", "C", "x3")
       [] d = "r:wyear:shuffled" -> R("wyear", "C", "shuffled")
       [] d = "r:wyear:partnan"  -> R("wyear", "C", "partnan")
       [] d = "r:wyear:partzero" -> R("wyear", "C", "partzero")
       [] d = "r:wpart:partzero" -> R("wpart", "C", "partzero")
       [] d = "r:wyear:allnan"   -> R("wyear", "C", "allnan")
       [] d = "r:wyear:absent"   -> R("wyear", "C", "absent")
       [] d = "r:wpart:orig"     -> R("wpart", "C", "orig")
       [] d = "r:wpart:absent"   -> R("wpart", "C", "absent")
       [] d = "r:wpart:partnan"  -> R("wpart", "C", "partnan")
       [] d = "r:wlong:orig"     -> R("wlong", "C", "orig")
       [] d = "r:wlong:partnan"  -> R("wlong", "C", "partnan")
       [] d = "r:wlong:absent"   -> R("wlong", "C", "absent")
       [] d = "r:wdup:orig"      -> R("wdup", "C", "orig")
       [] d = "r:wdup:allnan"    -> R("wdup", "C", "allnan")
       [] d = "r:wdup:absent"    -> R("wdup", "C", "absent")
       [] d = "r:wdup:partnan"   -> R("wdup", "C", "partnan")
       [] d = "r:wgap:orig"      -> R("wgap", "C", "orig")
       [] d = "r:wgap:allnan"    -> R("wgap", "C", "allnan")
       [] d = "r:wgap:absent"    -> R("wgap", "C", "absent")
       [] d = "r:wgap:x3"        -> R("wgap", "C", "x3")
       [] d = "r:wmonth:orig"    -> R("wmonth", "C", "orig")
       [] d = "r:wweek:orig"     -> R("wweek", "C", "orig")
       [] d = "r:wweek:absent"   -> R("wweek", "C", "absent")
       [] d = "r:wday:orig"      -> R("wday", "C", "orig")
       [] d = "r:weast:orig"     -> R("weast", "E", "orig")
       [] d = "x:wmonth"         -> X("wmonth")
       [] d = "y:wmonth"         -> X("wmonth")]        \* foreign too: the sibling family (daily <-> billing, hourly <-> CalTRACK hourly)

\* ---- history templates.  "sweep" is not an operation of Lifecycle: the templates below use only real operations.
T_gate  == << {"new"}, {"sweep", "fit"}, {"sweep", "fit", "save"}, {"sweep", "save", "restart", "load"}, {"sweep", "restart", "load"}, {"sweep", "load"}, {"sweep"} >>
T_refit == << {"new"}, {"fit"}, {"sweep", "fit"}, {"fit", "sweep"}, {"sweep", "save"}, {"sweep"} >>
T_store == << {"new"}, {"fit"}, {"sweep"}, {"save"}, {"restart", "load"}, {"load", "sweep"}, {"sweep", "save"}, {"save", "sweep"} >>
\* two different stored models restored side by side in one process, the one restored first used afterwards
T_store2 == << {"new"}, {"new"}, {"fit"}, {"fit"}, {"save"}, {"save"}, {"restart"}, {"load"}, {"load", "sweep"}, {"sweep", "load"}, {"sweep"}, {"sweep", "save"} >>
T_pure  == << {"new"}, {"fit"}, {"predict"}, {"predict", "readdf"}, {"predict", "scribble"}, {"predict", "save"} >>
T_inter == << {"new"}, {"new"}, {"fit"}, {"predict", "fit"}, {"fit", "predict"}, {"predict"} >>
T_obs   == << {"new"}, {"fit"}, {"predict"}, {"predict"}, {"predict"} >>
T_warm  == << {"other", "new"}, {"other", "new"}, {"new", "fit"}, {"fit", "other"}, {"fit", "predict"}, {"predict"} >>
\* every operation allowed at every position: explored by random simulation (tlc -simulate), not exhaustively
\* (`tlc -simulate` picks uniformly among the successor states, so the first two calls are pinned to get models into play)
FreeOps == {"new", "fit", "predict", "save", "load", "restart", "readdf", "scribble"}
T_free  == << {"new"}, {"new", "fit"} >> \o [k \in 1..10 |-> FreeOps]
=============================================================================
