SPECIFICATION Spec
CONSTANTS
  Slots = {"s1", "s2"}
  DataIds = {"b:good", "b:short", "b:poor", "r:wmonth:orig", "r:weast:orig", "x:wmonth"}
  Cat <- CatAll
  Fam = "daily"
  Profs = {"legacy"}
  Seeds = {1}
  Template <- T_gate
  IgnSet = {TRUE, FALSE}
  AggSet = {"None"}
INVARIANT GateClosed
INVARIANT GateClosedSweep
INVARIANT GateFailClosed
INVARIANT FitRaisesExactlyWhenDisqualified
INVARIANT GateSurvivesStorage
INVARIANT Deterministic
PROPERTY PredictPure
PROPERTY OnlySlotChanges
PROPERTY StoreAppendOnly
