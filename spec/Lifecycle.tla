------------------------------ MODULE Lifecycle ------------------------------
(***************************************************************************)
(* Bounded state machine of the model / data-object life cycle (P-layer).  *)
(* One process with restarts; a small catalogue of data objects; model     *)
(* slots; a document store that survives restarts.                         *)
(*                                                                         *)
(* Used for two things:                                                    *)
(*  1. TLC checks the life-cycle theorems the properties C01..C05 state    *)
(*     (gate closed, gate survives storage, predict is pure, fitting is    *)
(*     deterministic, a round trip preserves the model).                   *)
(*  2. Its behaviours are the test programme: `hist` records the calls     *)
(*     made so far; every maximal history allowed by `Template` is dumped  *)
(*     and replayed on the real library (drivers/lifecycle.py), and the    *)
(*     recorded execution is validated by LifecycleTrace.tla.              *)
(* Template[k] is the set of operations allowed as k-th call, so that a    *)
(* configuration enumerates one family of histories exhaustively.          *)
(***************************************************************************)
EXTENDS LifeDefs, SequencesExt

CONSTANTS Slots,        \* model slots
          DataIds,      \* data objects of the catalogue
          Cat,          \* DataIds -> [kind, fam, tz, sig, wx, obs, dq, fullcal, poor]
          Fam, Profs, Seeds,
          Template,     \* sequence of sets of operation names
          IgnSet, AggSet
VARIABLES model, store, hist, last
vars == <<model, store, hist, last>>

Baselines == {d \in DataIds : Cat[d].kind = "baseline"}
Reports   == DataIds
NoModel   == [st |-> "none"]
Gate(d)   == [cv_ok |-> ~Cat[d].poor, pn_ok |-> ~Cat[d].poor, cv_gt |-> Cat[d].poor]
Allowed(op) == Len(hist) < Len(Template) /\ op \in Template[Len(hist) + 1]
Rec(h, l) == hist' = Append(hist, h) /\ last' = l

Init == model = [s \in Slots |-> NoModel] /\ store = <<>> /\ hist = <<>> /\ last = [op |-> "init"]

New(s, prof, seed) ==
  /\ Allowed("new") /\ model[s].st = "none"
  /\ model' = [model EXCEPT ![s] = NewModel(Fam, prof, seed)]
  /\ Rec([op |-> "new", s |-> s, fam |-> Fam, prof |-> prof, seed |-> seed], [op |-> "new", s |-> s]) /\ UNCHANGED store

Fit(s, b, ign) ==
  /\ Allowed("fit") /\ model[s].st \in {"new", "fitted"} /\ Cat[b].fam = Fam     \* a fitted object may be fitted again
  /\ LET m == model[s]  d == Cat[b] IN
     \E out \in FitOutcomes(m, d, ign) :
       /\ model' = IF out = "ok" THEN [model EXCEPT ![s] = Fitted(m, d, Gate(b))] ELSE model
       /\ Rec([op |-> "fit", s |-> s, d |-> b, ign |-> ign], [op |-> "fit", s |-> s, out |-> out, ign |-> ign, d |-> b])
  /\ UNCHANGED store

Predict(s, r, ign, agg) ==
  /\ Allowed("predict") /\ model[s].st # "none"
  /\ LET m == model[s]  d == Cat[r]  F == Faults(m, d, ign, agg) IN
     \E out \in (IF F = {} THEN {"ok"} ELSE IF F = {"disqualified"} THEN {"DisqualifiedModelError"} ELSE {"raises"}) :
       Rec([op |-> "predict", s |-> s, d |-> r, ign |-> ign, agg |-> agg],
           [op |-> "predict", s |-> s, out |-> out, ign |-> ign, d |-> r, val |-> Pred(m, d, agg)])
  /\ UNCHANGED <<model, store>>

\* a predict with every (report, ignore flag, aggregation) of the configuration, in an order the driver chooses;
\* one abstract step because none of them may change anything
SweepOut(m, d, ign, agg) == LET F == Faults(m, d, ign, agg) IN
                            IF F = {} THEN "ok" ELSE IF F = {"disqualified"} THEN "DisqualifiedModelError" ELSE "raises"
Sweep(s) ==
  /\ Allowed("sweep") /\ model[s].st # "none" /\ ~(last.op = "sweep" /\ last.s = s)
  /\ Rec([op |-> "sweep", s |-> s],
         [op |-> "sweep", s |-> s, outs |-> [c \in Reports \X IgnSet \X AggSet |-> SweepOut(model[s], Cat[c[1]], c[2], c[3])]])
  /\ UNCHANGED <<model, store>>

Save(s) ==
  /\ Allowed("save") /\ model[s].st = "fitted"
  /\ store' = Append(store, Doc(model[s]))
  /\ Rec([op |-> "save", s |-> s], [op |-> "save", s |-> s]) /\ UNCHANGED model

Load(s, k) ==
  /\ Allowed("load") /\ k \in 1..Len(store) /\ model[s].st = "none"
  /\ model' = [model EXCEPT ![s] = Loaded(store[k])]
  /\ Rec([op |-> "load", s |-> s, docix |-> k], [op |-> "load", s |-> s, k |-> k]) /\ UNCHANGED store

Restart ==
  /\ Allowed("restart") /\ store # <<>>
  /\ model' = [s \in Slots |-> NoModel]
  /\ Rec([op |-> "restart"], [op |-> "restart"]) /\ UNCHANGED store

ReadDf(d) == Allowed("readdf") /\ Rec([op |-> "readdf", d |-> d], [op |-> "readdf"]) /\ UNCHANGED <<model, store>>
Scribble  == Allowed("scribble") /\ last.op = "predict" /\ last.out = "ok"
             /\ Rec([op |-> "scribble"], [op |-> "scribble"]) /\ UNCHANGED <<model, store>>
Other(k)  == Allowed("other") /\ Rec([op |-> "other", k |-> k], [op |-> "other"]) /\ UNCHANGED <<model, store>>

Next ==
  \/ \E s \in Slots, p \in Profs, sd \in Seeds : New(s, p, sd)
  \/ \E s \in Slots, b \in Baselines, ign \in IgnSet : Fit(s, b, ign)
  \/ \E s \in Slots, r \in Reports, ign \in IgnSet, agg \in AggSet : Predict(s, r, ign, agg)
  \/ \E s \in Slots : Sweep(s)
  \/ \E s \in Slots : Save(s)
  \/ \E s \in Slots, k \in 1..Len(store) : Load(s, k)
  \/ Restart
  \/ \E d \in DataIds : ReadDf(d)
  \/ Scribble
  \/ \E k \in {"rng", "settings", "otherfit"} : Other(k)
Spec == Init /\ [][Next]_vars

----------------------------------------------------------------------------
\* theorems (C04, C02, C03, C01)
GateClosed == (last.op = "predict" /\ last.out = "ok") => (model[last.s].dq = {} \/ last.ign \/ Fam \notin GatedFams)
GateClosedSweep == last.op = "sweep" =>
  \A c \in DOMAIN last.outs : last.outs[c] = "ok" => (model[last.s].dq = {} \/ c[2] \/ Fam \notin GatedFams)
GateFailClosed == last.op = "fit" => last.out \in {"ok", "DataSufficiencyError"}
FitRaisesExactlyWhenDisqualified ==
  last.op = "fit" => ((last.out = "DataSufficiencyError") <=> (Fam \in GatedFams /\ Cat[last.d].dq # {} /\ ~last.ign))
GateSurvivesStorage ==
  \A s \in Slots : model[s].st = "fitted" /\ model[s].via = "load" =>
     \E k \in 1..Len(store) : store[k].core = model[s].core /\ store[k].dq = model[s].dq /\ store[k].tz = model[s].tz
Deterministic ==
  \A s, t \in Slots : (model[s].st = "fitted" /\ model[t].st = "fitted" /\ model[s].core = model[t].core)
                        => (model[s].dq = model[t].dq /\ model[s].tz = model[t].tz)
PredictPure == [][last'.op \in {"predict", "sweep"} => UNCHANGED <<model, store>>]_vars
OnlySlotChanges == [][last'.op \in {"fit", "load", "new"} => \A t \in Slots \ {last'.s} : model'[t] = model[t]]_vars
StoreAppendOnly == [][IsPrefix(store, store')]_vars
=============================================================================
