--------------------------- MODULE LifecycleTrace ---------------------------
(***************************************************************************)
(* Trace validation for the Lifecycle module (C01..C05, fragment of C06).  *)
(* Input: a batch of traces; each trace is the sequence of public calls    *)
(* one scripted history made on the real library, one event per call,      *)
(* logged after the call returned or raised, with                          *)
(*   - the abstract arguments (ids from the catalogue),                    *)
(*   - the outcome class,                                                  *)
(*   - pi_id projections (hashes) of what the call returned, and           *)
(*   - `proj`, the whole-state projection after the call: for every live   *)
(*     model its to_json hash / dq names / warnings hash / tz, for every   *)
(*     data object the hashes of .df, .disqualification, .warnings, and    *)
(*     for every caller-owned frame its hash.                              *)
(* Every clause below is evaluated by TLC; a step that fails a clause is   *)
(* printed as <<"REJECT", trace, step, {clauses}>>; validation continues.    *)
(* `interp` (abstract value -> first hash seen, with provenance) is kept   *)
(* for the whole batch: "same abstract value => same bytes" across slots,  *)
(* histories, reloads, observed-variants and processes.                    *)
(***************************************************************************)
EXTENDS LifeDefs, Json, IOUtils, TLCExt, SequencesExt

Traces == JsonDeserialize(IOEnv.TRACE_FILE)

VARIABLES tid, i, model, data, store, prev, interp, nrej
vars == <<tid, i, model, data, store, prev, interp, nrej>>

SeqSet(s) == {s[k] : k \in 1..Len(s)}
Dummy == "_"
Ev == Traces[tid][i]
EmptyFn == [x \in {} |-> 0]
Has(f, k) == k \in DOMAIN f
Put(f, k, v) == [x \in (DOMAIN f) \cup {k} |-> IF x = k THEN v ELSE f[x]]
Drop(f, K) == [x \in (DOMAIN f) \ K |-> f[x]]

\* ---- projections
Same(a, b, except) == \A k \in (DOMAIN a) \ except : k \in DOMAIN b /\ b[k] = a[k]
NoneLost(a, b) == \A k \in DOMAIN a : k \in DOMAIN b
ModelsSame(p, q, ex) == Same(p.m, q.m, ex)
DataSame(p, q, ex)   == Same(p.d, q.d, ex)
ExtSame(p, q, ex)    == Same(p.x, q.x, ex)
AllSame(p, q)        == ModelsSame(p, q, {}) /\ DataSame(p, q, {}) /\ ExtSame(p, q, {})

\* ---- interpretation map with provenance; returns the name of the relation that is broken, or "" when consistent
Prov(e) == [obs |-> e.pobs, via |-> e.pvia, inst |-> e.pinst, proc |-> e.proc]
Clash(key, h, pv) ==
  IF ~Has(interp, key) THEN ""
  ELSE IF interp[key].h = h THEN ""
  ELSE LET o == interp[key].pv IN
       IF o.obs # pv.obs THEN "SameAcrossObservedVariants"
       ELSE IF o.via # pv.via THEN "SameAfterReload"
       ELSE IF o.inst # pv.inst \/ o.proc # pv.proc THEN "SameAcrossFits"
       ELSE "SameAcrossHistory"
Learn(key, h, pv) == IF Has(interp, key) THEN interp ELSE Put(interp, key, [h |-> h, pv |-> pv])

\* ---- one clause = <<name, holds>>; Step yields [clauses, model, data, store, interp]
Res(cl, m, d, s, ip) == [cl |-> cl, model |-> m, data |-> d, store |-> s, interp |-> ip]

StartStep(e) ==
  \* a fresh process: nothing of this process survives, the store does
  LET gone(f) == {k \in DOMAIN f : f[k].proc = e.proc} IN
  Res(<< <<"StartLeavesOthersAlone", ModelsSame([m |-> Drop(prev.m, gone(model))], e.proj, {}) /\ DataSame([d |-> Drop(prev.d, gone(data))], e.proj, {})>> >>,
      Drop(model, gone(model)), Drop(data, gone(data)), store, interp)

MakeStep(e) ==
  LET d == [proc |-> e.proc, kind |-> e.kind, fam |-> e.fam, tz |-> e.tz, sig |-> e.sig, wx |-> e.wx, obs |-> e.obs,
            dq |-> SeqSet(e.dq), fullcal |-> e.fullcal] IN
  \* (entry forms "naive" - an index without a timezone - and "notemp" - no temperature column - are malformed on purpose: the
  \*  constructor may refuse them, but a refusal, like a success, leaves the frame the caller handed over as it was)
  Res(<< <<"DataObjectConstructed", e.out = "ok" \/ e.entry \in {"naive", "notemp"}>>,
         <<"CallerFramesUntouched", Has(e.proj.x, e.d) /\ e.proj.x[e.d].h = e.ext_before>>,
         <<"MakeLeavesOthersAlone", ModelsSame(prev, e.proj, {}) /\ DataSame(prev, e.proj, {e.d}) /\ ExtSame(prev, e.proj, {e.d})>> >>,
      model, IF e.out = "ok" THEN Put(data, e.d, d) ELSE data, store, interp)

NewStep(e) ==
  Res(<< <<"NewLeavesOthersAlone", ModelsSame(prev, e.proj, {e.s}) /\ DataSame(prev, e.proj, {}) /\ ExtSame(prev, e.proj, {})>> >>,
      Put(model, e.s, [proc |-> e.proc] @@ NewModel(e.fam, e.prof, e.seed)), data, store, interp)

FitStep(e) ==
  LET m  == model[e.s]
      d  == data[e.d]
      ok == e.out = "ok"
      m2 == [proc |-> m.proc] @@ Fitted(m, d, e.gate)
      pm == e.proj.m[e.s]
      key == Json(m2)
      clash == IF ok THEN Clash(key, pm.json, Prov(e)) ELSE ""
  IN Res(<< <<"FitReturnsOrDataSufficiencyError", e.out \in FitOutcomes(m, d, e.ign)>>,
            <<"FitProducesSerialisableModel", ok => pm.json # "unserialisable">>,
            <<"ModelCarriesDataAndPoorFitDq", ok => SeqSet(pm.dq) = m2.dq>>,
            <<"ModelKeepsBaselineTimezone", (ok /\ m.fam \in GatedFams) => pm.tz = m2.tz>>,      \* the CalTRACK wrapper records no timezone (and has no timezone check)
            <<"FitJson" \o clash, clash = "">>,
            <<"FitLeavesDataAlone", DataSame(prev, e.proj, {}) /\ ExtSame(prev, e.proj, {})>>,
            <<"FitLeavesOtherModelsAlone", ModelsSame(prev, e.proj, IF ok THEN {e.s} ELSE {})>> >>,
         IF ok THEN Put(model, e.s, m2) ELSE model, data, store,
         IF ok /\ clash = "" THEN Learn(key, pm.json, Prov(e)) ELSE interp)

\* probe vectors: "missing" entries are rows for which that variant produced no prediction
VecAgree(a, b) == Len(a) = Len(b) /\ \A k \in 1..Len(a) : a[k] = "missing" \/ b[k] = "missing" \/ a[k] = b[k]
VecMerge(a, b) == [k \in 1..Len(a) |-> IF a[k] = "missing" THEN b[k] ELSE a[k]]

PredictStep(e) ==
  LET m == model[e.s]
      d == data[e.d]
      ok == e.out = "ok"
      key == Pred(m, d, e.agg)
      clash == IF ok THEN Clash(key, e.val, Prov(e)) ELSE ""
      okey == PredAnyObs(m, d, e.agg)
      claimed == ok /\ ObsIndependenceClaimed(m, e.agg)
      oclash == claimed /\ Has(interp, okey) /\ ~VecAgree(interp[okey].h, e.pv)
      ip1 == IF ok /\ clash = "" THEN Learn(key, e.val, Prov(e)) ELSE interp
      ip2 == IF claimed /\ ~oclash
             THEN Put(ip1, okey, [h |-> IF Has(interp, okey) THEN VecMerge(interp[okey].h, e.pv) ELSE e.pv, pv |-> Prov(e)])
             ELSE ip1
      gate == PredictOutcomeOk(m, d, e.ign, e.agg, e.out)
  IN Res(<< <<IF d.obs = "orig" \/ Faults(m, d, e.ign, e.agg) # {} THEN "PredictGate" ELSE "PredictGateUnderObservedVariant", gate>>,
            <<"OneRowPerInputTimestamp", ok /\ e.agg \in {"None", "none"} => e.rows_ok>>,
            <<"Pred" \o clash, clash = "">>,
            <<"PredSameAcrossObservedVariants", ~oclash>>,
            <<"PredictPure", AllSame(prev, e.proj)>> >>,
         model, data, store, ip2)

SaveStep(e) ==
  LET m == model[e.s]
      clash == IF e.out = "ok" THEN Clash(Json(m), e.doc, Prov(e)) ELSE "" IN
  Res(<< <<"SaveSucceeds", m.st = "fitted" => e.out = "ok">>,
         <<"SaveIsToJson", e.out = "ok" => e.doc = e.proj.m[e.s].json>>,
         <<"Doc" \o clash, clash = "">>,
         <<"SavePure", AllSame(prev, e.proj)>> >>,
      model, data, IF e.out = "ok" THEN Put(store, e.doc, [warn |-> e.proj.m[e.s].warn, tz |-> e.proj.m[e.s].tz] @@ Doc(m)) ELSE store, interp)      \* tz, warnings: as measured on the model that was saved

LoadStep(e) ==
  LET doc == store[e.doc]
      ok  == e.out = "ok"
      m2  == [proc |-> e.proc] @@ Loaded(doc)
      pm  == e.proj.m[e.s] IN
  Res(<< <<"LoadSucceeds", ok>>,
         <<"ReserialisesToSameDocument", ok => pm.json = e.doc>>,
         <<"LoadKeepsDisqualifications", ok => SeqSet(pm.dq) = doc.dq>>,
         <<"LoadKeepsTimezone", ok => pm.tz = doc.tz>>,
         <<"LoadKeepsWarnings", ok => pm.warn = doc.warn>>,
         <<"LoadLeavesOthersAlone", ModelsSame(prev, e.proj, {e.s}) /\ DataSame(prev, e.proj, {}) /\ ExtSame(prev, e.proj, {})>> >>,
      IF ok THEN Put(model, e.s, m2) ELSE model, data, store, interp)

\* the user reads a frame from a data object / keeps a prediction and overwrites it; or does unrelated work
QuietStep(e) ==
  Res(<< <<"HandedOutFramesAreCopies", AllSame(prev, e.proj)>> >>, model, data, store, interp)

Step(e) ==
  CASE e.op = "start"   -> StartStep(e)
    [] e.op = "make"    -> MakeStep(e)
    [] e.op = "new"     -> NewStep(e)
    [] e.op = "fit"     -> FitStep(e)
    [] e.op = "predict" -> PredictStep(e)
    [] e.op = "save"    -> SaveStep(e)
    [] e.op = "load"    -> LoadStep(e)
    [] OTHER            -> QuietStep(e)

Failing(r) == {r.cl[k][1] : k \in {k \in 1..Len(r.cl) : ~r.cl[k][2]}}
EmptyProj == [m |-> EmptyFn, d |-> EmptyFn, x |-> EmptyFn]

Init == tid = 1 /\ i = 1 /\ model = EmptyFn /\ data = EmptyFn /\ store = EmptyFn /\ prev = EmptyProj
        /\ interp = EmptyFn /\ nrej = 0

NextTrace == /\ tid' = tid + 1 /\ i' = 1 /\ model' = EmptyFn /\ data' = EmptyFn /\ store' = EmptyFn /\ prev' = EmptyProj

\* A step that fails a clause is reported and validation of the history goes on with the abstract state the P-layer
\* prescribes (so that a later step is still judged, e.g. the gate after a call that wrongly edited the model).
Next ==
  /\ tid <= Len(Traces)
  /\ IF i > Len(Traces[tid])
     THEN NextTrace /\ UNCHANGED <<interp, nrej>>
     ELSE LET r == Step(Ev)
              f == Failing(r)
          IN /\ (f # {} => PrintT(<<"REJECT", Ev.tid, i, f>>))
             /\ model' = r.model /\ data' = r.data /\ store' = r.store /\ interp' = r.interp
             /\ prev' = Ev.proj /\ i' = i + 1 /\ tid' = tid /\ nrej' = IF f = {} THEN nrej ELSE nrej + 1
  /\ (tid' = Len(Traces) + 1 => PrintT(<<"DONE", Len(Traces), nrej'>>))
Spec == Init /\ [][Next]_vars
=============================================================================
