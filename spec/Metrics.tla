------------------------------- MODULE Metrics -------------------------------
(* Bounded enumeration for C16: every observed / predicted pair of length 2..MaxLen *)
(* over Vals with non-finite markers, parameter counts 1..3, the 4 x 4 hourly gate   *)
(* table and the stored-metrics cases.  Theorems are the identities the statement    *)
(* names: rmse^2 * n = sse, cvrmse^2 * mean^2 = rmse^2, adjusted forms >= plain,     *)
(* 0 <= r^2 <= 1, savings = sum(pred) - sum(obs).                                    *)
EXTENDS MetricsDefs
CONSTANTS MaxLen, Vals
VARIABLES in, out, pc
vars == <<in, out, pc>>
GateClasses == {"none", "low", "mid", "high", "eqown"}
ValsQuick == {-1, 0, 2, 3}
ValsThorough == {-2, -1, 0, 1, 2, 3}
Cell == {[f |-> TRUE, v |-> x] : x \in Vals} \cup {[f |-> FALSE, v |-> 0]}
Init ==
  /\ \/ \E n \in 2..MaxLen, p \in 1..3 : \E o \in [1..n -> Cell], q \in [1..n -> Cell] :
          /\ Len(SelectSeq([i \in 1..n |-> <<o[i], q[i]>>], LAMBDA t : t[1].f /\ t[2].f)) >= 2
          /\ Cardinality({i \in 1..n : ~o[i].f \/ ~q[i].f}) <= 1
          /\ in = [kind |-> "stats", obs |-> o, pred |-> q, p |-> p, long |-> FALSE]
     \* residual patterns of length 4 (the shortest series whose lag-1 autocorrelation is not +-1) against a constant observed
     \* series: every autocorrelation regime, among them rho above (n-1)/(n+1), where the corrected n' drops below 1
     \/ \E r \in [1..4 -> -2..3] :
          in = [kind |-> "stats", obs |-> [i \in 1..4 |-> [f |-> TRUE, v |-> 10]], pred |-> [i \in 1..4 |-> [f |-> TRUE, v |-> 10 - r[i]]],
                p |-> 1, long |-> FALSE, drift |-> TRUE]
     \* CalTRACK hourly ModelMetrics: six timestamps, at most one missing on either side (at the same or at different timestamps)
     \/ \E mo \in 0..6, mq \in 0..6, ord \in {"time", "reversed"} :
          in = [kind |-> "calstats", obs |-> [i \in 1..6 |-> IF i = mo THEN [f |-> FALSE, v |-> 0] ELSE [f |-> TRUE, v |-> 3 + ((5 * i) % 7) + i]],
                pred |-> [i \in 1..6 |-> IF i = mq THEN [f |-> FALSE, v |-> 0] ELSE [f |-> TRUE, v |-> 4 + ((3 * i) % 5) + 2 * i]], p |-> 1, order |-> ord]
     \/ \E cv \in GateClasses, pn \in GateClasses : in = [kind |-> "gate", cv |-> cv, pn |-> pn]
     \/ \E f \in {"hourly", "daily", "billing"}, nm \in {"good", "other", "poor", "tgaps"} : in = [kind |-> "stored", fam |-> f, name |-> nm, prior |-> "none"]     \* tgaps: hours whose temperature had to be filled while the usage is real
     \/ \E k \in 1..Len(TQuantiles) : TQuantiles[k].dof \in 2..10 /\ in = [kind |-> "tq", conf |-> TQuantiles[k].conf, tail |-> TQuantiles[k].tail, dof |-> TQuantiles[k].dof]
     \* the same model OBJECT was fitted on another meter before: the statistics it reports are those of the last fit
     \/ \E c \in {<<"daily", "poor", "good">>, <<"daily", "good", "poor">>, <<"billing", "poor", "good">>, <<"billing", "good", "other">>, <<"hourly", "poor", "good">>} :
          in = [kind |-> "stored", fam |-> c[1], name |-> c[2], prior |-> c[3]]
  /\ out = [res |-> "pending"] /\ pc = "call"
Call == pc = "call" /\ out' = [res |-> "modelled"] /\ pc' = "done" /\ UNCHANGED in
Next == Call
Spec == Init /\ [][Next]_vars
Identities == (pc = "done" /\ in.kind = "stats") =>
  LET e == Expected(in) IN
  /\ Eq(Mul(e.rmse2.v, R(N(in))), e.sse.v)
  /\ (~e.cvrmse2.u => Eq(Mul(e.cvrmse2.v, Sq(MeanObs(in))), e.rmse2.v))
  /\ Le(e.rmse2.v, e.rmseadj2.v)
  /\ (~e.r2.u => Le(Zero, e.r2.v) /\ Le(e.r2.v, R(1)))
  /\ (~e.rho2.u => Le(e.rho2.v, R(1)))
  /\ Le(Sq(e.mbe.v), e.rmse2.v)                      \* bias^2 <= mse
  /\ Le(Sq(e.mae.v), e.rmse2.v)                      \* mae <= rmse
\* vacuity guard: the n' clause is exercised on both sides of n' = 1 (rho^2 above / below ((n-1)/(n+1))^2 with positive rho) and for negative rho
NPrimeRegimesCovered == (pc = "done" /\ in.kind = "gate" /\ in.cv = "none" /\ in.pn = "none") =>      \* a constant statement: evaluated in one state
  LET D == {r \in [1..4 -> -2..3] : TRUE}
      I(r) == [kind |-> "stats", obs |-> [i \in 1..4 |-> [f |-> TRUE, v |-> 10]], pred |-> [i \in 1..4 |-> [f |-> TRUE, v |-> 10 - r[i]]], p |-> 1, long |-> FALSE]
  IN /\ \E r \in D : NPrimeDefined(I(r)) /\ RhoSign(I(r)) = 1 /\ Lt(Q(9, 25), Rho2(I(r)))
     /\ \E r \in D : NPrimeDefined(I(r)) /\ RhoSign(I(r)) = 1 /\ Lt(Rho2(I(r)), Q(9, 25))
     /\ \E r \in D : NPrimeDefined(I(r)) /\ RhoSign(I(r)) = -1
GateTable == \A cv, pn \in GateClasses : HourlyPoor(cv, pn) <=> (cv # "low" /\ pn \notin {"low", "mid"})
=============================================================================
