----------------------------- MODULE MetricsDefs -----------------------------
(***************************************************************************)
(* C16 - fit statistics as exact rationals on small integer series.        *)
(*  in.kind = "stats": [obs, pred, p, long]  obs / pred: sequences of      *)
(*       [f, v]: f = the value is finite, v = integer value; p = number of *)
(*       model parameters; long: a seeded longer series, for which the     *)
(*       correlation-type statistics (numbers beyond 32 bits) are skipped  *)
(*     out = [res, m]   m: record metric name -> [u, n, d, ok]             *)
(*       u: reported as undefined (None / NaN); n/d: value snapped to a    *)
(*       rational; ok: the snap is exact to 1e-9 relative                   *)
(*     square-rooted quantities are carried squared (rmse2, cvrmse2, ...)  *)
(*  in.kind = "gate":  [cv, pn] each in {"none", "low", "mid", "high", "eqown"} *)
(*     out = [res, poor]   the hourly poor-fit decision                    *)
(*  in.kind = "calstats": [obs, pred, order]  the CalTRACK hourly           *)
(*        ModelMetrics(observed series, predicted series); a cell with     *)
(*        f = FALSE is a timestamp the series has no value for; order:     *)
(*        the predicted series is handed over in time order or reversed    *)
(*     out = [res, n, rmse2]                                               *)
(*  in.kind = "tq": [conf, tail, dof]  ReportingMetrics(confidence_level,   *)
(*        t_tail) on a baseline with `dof` degrees of freedom              *)
(*     out = [res, fl, ce]  floor / ceiling of 1000 x t_stat               *)
(*  in.kind = "stored": [fam, name, prior]  a real fit (prior: the meter   *)
(*        the same model object was fitted on before, or "none")           *)
(*     out = [res, same, gateOk, asFresh]   stored metrics = metrics of    *)
(*        predict(baseline); asFresh: the reported statistics equal those  *)
(*        of a fresh model object fitted on the same data                  *)
(***************************************************************************)
EXTENDS Integers, Sequences, FiniteSets, TLC, Rat, SequencesExt, TTable

Pairs(in) == SelectSeq([i \in 1..Len(in.obs) |-> <<in.obs[i], in.pred[i]>>], LAMBDA t : t[1].f /\ t[2].f)
Obs(in)  == LET ps == Pairs(in) IN [i \in 1..Len(ps) |-> ps[i][1].v]
Pred(in) == LET ps == Pairs(in) IN [i \in 1..Len(ps) |-> ps[i][2].v]
RECURSIVE SumS(_, _)
SumS(s, k) == IF k = 0 THEN 0 ELSE SumS(s, k - 1) + s[k]
Sum(s) == SumS(s, Len(s))
N(in) == Len(Pairs(in))
Resid(in) == LET o == Obs(in)  p == Pred(in) IN [i \in 1..Len(o) |-> o[i] - p[i]]       \* observed - predicted
SSE(in) == Sum([i \in 1..N(in) |-> Resid(in)[i] * Resid(in)[i]])
MeanObs(in) == Q(Sum(Obs(in)), N(in))
DDof(in) == IF N(in) - in.p < 1 THEN 1 ELSE N(in) - in.p
Rmse2(in) == Q(SSE(in), N(in))
RmseAdj2(in) == Q(SSE(in), DDof(in))
Mae(in) == Q(Sum([i \in 1..N(in) |-> Abs(Resid(in)[i])]), N(in))
Mbe(in) == Q(Sum(Resid(in)), N(in))
\* quantile by linear interpolation of order statistics (numpy default)
Sorted(s) == SortSeq(s, <)
Quant(s, qn, qd) ==        \* q = qn/qd
  LET x == Sorted(s)  n == Len(x)
      pos == Q((n - 1) * qn, qd)
      lo == pos[1] \div pos[2]
      frac == Sub(pos, R(lo))
  IN IF lo + 1 >= n THEN R(x[n]) ELSE Add(R(x[lo + 1]), Mul(frac, R(x[lo + 2] - x[lo + 1])))
Iqr(in) == Sub(Quant(Obs(in), 3, 4), Quant(Obs(in), 1, 4))
\* covariance * n^2 and variances * n^2 (integers): n*Sxy - Sx*Sy
Cxy(x, y) == Len(x) * Sum([i \in 1..Len(x) |-> x[i] * y[i]]) - Sum(x) * Sum(y)
R2(in) == LET o == Obs(in)  p == Pred(in) IN Q(Cxy(o, p) * Cxy(o, p), Cxy(o, o) * Cxy(p, p))
R2Defined(in) == LET o == Obs(in)  p == Pred(in) IN Cxy(o, o) # 0 /\ Cxy(p, p) # 0
\* lag-1 autocorrelation of the residuals (Pearson correlation of r[2..n] with r[1..n-1]), squared, and its sign
Lag(in) == LET r == Resid(in)  n == Len(r) IN <<SubSeq(r, 2, n), SubSeq(r, 1, n - 1)>>
Rho2(in) == LET l == Lag(in) IN Q(Cxy(l[1], l[2]) * Cxy(l[1], l[2]), Cxy(l[1], l[1]) * Cxy(l[2], l[2]))
RhoDefined(in) == N(in) >= 3 /\ LET l == Lag(in) IN Cxy(l[1], l[1]) # 0 /\ Cxy(l[2], l[2]) # 0
RhoSign(in) == LET l == Lag(in)  c == Cxy(l[1], l[2]) IN IF c > 0 THEN 1 ELSE IF c < 0 THEN -1 ELSE 0
\* n' = n (1 - rho) / (1 + rho) is the textbook value while |rho| < 1 (at rho = -1 it does not exist, the library falls back to 1)
NPrimeDefined(in) == RhoDefined(in) /\ ~Eq(Rho2(in), R(1))
SafelyPositive(a) == a[1] > 0         \* integer data: a positive rational here is at least 1/4, far above the 1e-3 floor

\* expected value of each metric: [u |-> undefined?, v |-> rational]
Def(v) == [u |-> FALSE, v |-> v]
Undef == [u |-> TRUE, v |-> Zero]
Expected(in) ==
  [n        |-> Def(R(N(in))),
   sse      |-> Def(R(SSE(in))),
   mse      |-> Def(Rmse2(in)),
   rmse2    |-> Def(Rmse2(in)),
   rmseadj2 |-> Def(RmseAdj2(in)),
   mae      |-> Def(Mae(in)),
   mbe      |-> Def(Mbe(in)),
   cvrmse2  |-> IF SafelyPositive(MeanObs(in)) THEN Def(Div(Rmse2(in), Sq(MeanObs(in)))) ELSE Undef,
   cvrmseadj2 |-> IF SafelyPositive(MeanObs(in)) THEN Def(Div(RmseAdj2(in), Sq(MeanObs(in)))) ELSE Undef,
   nmae     |-> IF SafelyPositive(MeanObs(in)) THEN Def(Div(Mae(in), MeanObs(in))) ELSE Undef,
   nmbe     |-> IF SafelyPositive(MeanObs(in)) THEN Def(Div(Mbe(in), MeanObs(in))) ELSE Undef,
   pnrmse2  |-> IF SafelyPositive(Iqr(in)) THEN Def(Div(Rmse2(in), Sq(Iqr(in)))) ELSE Undef,
   r2       |-> IF R2Defined(in) THEN Def(R2(in)) ELSE Undef,
   rho2     |-> IF RhoDefined(in) THEN Def(Rho2(in)) ELSE Undef,
   nprimerho2 |-> IF NPrimeDefined(in) THEN Def(Rho2(in)) ELSE Undef,   \* ((n - n')/(n + n'))^2 must be rho^2
   savings  |-> Def(R(Sum(Pred(in)) - Sum(Obs(in))))]
Names == {"n", "sse", "mse", "rmse2", "rmseadj2", "mae", "mbe", "cvrmse2", "cvrmseadj2", "nmae", "nmbe", "pnrmse2", "r2", "rho2", "nprimerho2", "savings"}
Ratios == {"cvrmse2", "cvrmseadj2", "nmae", "nmbe", "pnrmse2"}
Agrees(e, g) == IF e.u THEN g.u ELSE (~g.u /\ g.ok /\ g.d > 0 /\ g.n * e.v[2] = e.v[1] * g.d)

\* value classes of a statistic relative to BOTH thresholds (CVRMSE's is the smaller one): "none" (undefined), "low" (below
\* both), "mid" (between them), "high" (above both), "eqown" (exactly its own threshold)
BelowOwn(which, cls) == cls = "low" \/ (which = "pn" /\ cls = "mid")
HourlyPoor(cv, pn) == ~(BelowOwn("cv", cv) \/ BelowOwn("pn", pn))   \* a statistic that is undefined or not below its own threshold is a miss

Clauses(in, out) ==
  CASE in.kind = "stats" ->
      LET e == Expected(in) IN
      << <<"MetricsReturn", out.res = "ok">>,
         <<"StatisticsAreTheTextbookFormulas", out.res = "ok" => \A nm \in Names \ Ratios : (nm \in {"rho2", "nprimerho2", "r2"} /\ (e[nm].u \/ in.long)) \/ Agrees(e[nm], out.m[nm])>>,
         <<"RatiosAreTheTextbookFormulas", out.res = "ok" => \A nm \in Ratios : ~e[nm].u => Agrees(e[nm], out.m[nm])>>,
         <<"UndefinedWhenDenominatorNotPositive_cvrmse", out.res = "ok" => (e.cvrmse2.u => out.m.cvrmse2.u) /\ (e.cvrmseadj2.u => out.m.cvrmseadj2.u)>>,
         <<"UndefinedWhenDenominatorNotPositive_pnrmse", out.res = "ok" => (e.pnrmse2.u => out.m.pnrmse2.u)>>,
         <<"UndefinedWhenDenominatorNotPositive_nmae", out.res = "ok" => (e.nmae.u => out.m.nmae.u)>>,
         <<"UndefinedWhenDenominatorNotPositive_nmbe", out.res = "ok" => (e.nmbe.u => out.m.nmbe.u)>>,
         <<"SignOfAutocorrelation", (out.res = "ok" /\ NPrimeDefined(in)) => out.rhosign = RhoSign(in)>> >>
    [] in.kind = "calstats" ->
      \* the CalTRACK hourly ModelMetrics class: observed and predicted are two series of their own; the pairs are the timestamps both
      \* carry a value for (whatever the number and the order of the rows of either series)
      << <<"MetricsReturn", out.res = "ok">>,
         <<"PairsAreMatchedByTimestamp", out.res = "ok" => out.n = N(in)>>,
         <<"StatisticsAreTheTextbookFormulas", out.res = "ok" => Agrees([u |-> FALSE, v |-> Rmse2(in)], out.rmse2)>> >>
    [] in.kind = "gate" ->
      << <<"GateReturns", out.res = "ok">>,
         <<"HourlyPoorFitExactlyWhenBothThresholdsMissed", out.res = "ok" => (out.poor <=> HourlyPoor(in.cv, in.pn))>> >>
    [] in.kind = "tq" ->
      \* the t quantile that scales the savings uncertainty is the Student quantile of the REQUESTED tail and confidence level (to 1/1000)
      << <<"MetricsReturn", out.res = "ok">>,
         <<"TQuantileIsThatOfTheRequestedTailAndLevel", out.res = "ok" =>
              \* (the statement does not fix how the degrees of freedom of the quantile are counted: the library takes one fewer than the
              \*  baseline's n - p; both counts are admitted - a quantile of the wrong tail or level is far outside either)
              \E k \in 1..Len(TQuantiles) : /\ TQuantiles[k].conf = in.conf /\ TQuantiles[k].tail = in.tail /\ TQuantiles[k].dof \in {in.dof, in.dof - 1}
                                            /\ out.fl <= TQuantiles[k].q + 1 /\ out.ce >= TQuantiles[k].q - 1>> >>
    [] in.kind = "stored" ->
      << <<"FitReturns", out.res = "ok">>,
         <<"StoredHourlyMetricsAreThoseOfPredictBaseline", (out.res = "ok" /\ in.fam = "hourly") => out.same>>,
         <<"PoorFitDisqualificationIsTheGateOnTheReportedStatistic", out.res = "ok" => out.gateOk>>,
         <<"ReportedStatisticsAreThoseOfTheLastFit", (out.res = "ok" /\ in.prior # "none") => out.asFresh>> >>
Failing(in, out) == LET c == Clauses(in, out) IN {c[k][1] : k \in {k \in 1..Len(c) : ~c[k][2]}}
=============================================================================
