SPECIFICATION Spec
CONSTANTS
  MaxLen = 3
  Vals <- ValsQuick
INVARIANT Identities
INVARIANT GateTable
INVARIANT NPrimeRegimesCovered
