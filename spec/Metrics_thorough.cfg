SPECIFICATION Spec
CONSTANTS
  MaxLen = 3
  Vals <- ValsThorough
INVARIANT Identities
INVARIANT GateTable
INVARIANT NPrimeRegimesCovered
