--------------------------------- MODULE Prep ---------------------------------
(* Bounded enumeration for C17: every pattern of WinLen consecutive hours over  *)
(* row {present, absent, first of a duplicate} x temperature {value, NaN} x     *)
(* usage {value, zero, NaN} (x irradiance {value, NaN}), electric / gas, with / *)
(* without irradiance.  Theorem: the per-cell rule is total and consistent - a  *)
(* cell is either "supplied" (kept, unflagged) or "filled" (flagged, present).  *)
EXTENDS PrepDefs
CONSTANTS WinLen
VARIABLES in, out, pc
vars == <<in, out, pc>>
CellSet(g) == [row : {"present", "absent", "dupfirst"}, T : {"fin", "nan"}, obs : {"fin", "zero", "nan"}, G : IF g THEN {"fin", "nan"} ELSE {"fin"}]
Canon(c) == IF c.row = "absent" THEN c.T = "fin" /\ c.obs = "fin" /\ c.G = "fin" ELSE TRUE      \* an absent row has no cell classes
Init == /\ \E e \in BOOLEAN, g \in BOOLEAN : \E cs \in [1..WinLen -> {c \in CellSet(g) : Canon(c)}] :
             in = [electric |-> e, ghi |-> g, cells |-> cs, emptyCol |-> "none"]
        /\ out = [res |-> "pending"] /\ pc = "call"
Expected(i) ==
  [res |-> "ok", index_ok |-> TRUE, pad |-> [badValue |-> 0, badFlag |-> 0, missing |-> 0],
   cells |-> [k \in 1..Len(i.cells) |->
      [col \in {"T", "obs", "G"} |-> [kept |-> Supplied(i, i.cells[k], col), flag |-> ~Supplied(i, i.cells[k], col), present |-> TRUE]]]]
Call == pc = "call" /\ out' = Expected(in) /\ pc' = "done" /\ UNCHANGED in
Next == Call
Spec == Init /\ [][Next]_vars
OracleSelfConsistent == pc = "done" => Failing(in, out) = {}
ZeroIsMissingOnlyForElectricity == \A c \in CellSet(FALSE) : (c.row = "present" /\ c.obs = "zero") =>
   (Supplied([electric |-> FALSE, ghi |-> FALSE], c, "obs") /\ ~Supplied([electric |-> TRUE, ghi |-> FALSE], c, "obs"))
=============================================================================
