------------------------------- MODULE PrepDefs -------------------------------
(***************************************************************************)
(* C17 - hourly data preparation, per cell.                                *)
(*  in = [electric, ghi, cells, emptyCol]                                  *)
(*     cells[i] = [row, T, obs, G]: one hour of the supplied frame          *)
(*        row in {"present", "absent", "dupfirst"}                          *)
(*          dupfirst: the timestamp occurs twice, this is the first row     *)
(*        T, G in {"fin", "nan"}; obs in {"fin", "zero", "nan"}             *)
(*     ghi: the frame has an irradiance column; emptyCol: name of a column  *)
(*     that is entirely empty in the supplied frame ("none" if there is none) *)
(*  out = [res, index_ok, cells, pad]                                      *)
(*     index_ok: the returned index is every hour from 00:00 of the first   *)
(*        supplied local day to 23:00 of the last, no gap, no duplicate     *)
(*     cells[i][col] = [kept, flag, present] for col in T, obs, G           *)
(*        kept: returned value equals the supplied one; flag: the           *)
(*        interpolated_<col> flag; present: returned value is not missing   *)
(*     pad = [badValue, badFlag, missing]: counts over all other hours      *)
(***************************************************************************)
EXTENDS Integers, Sequences, FiniteSets, TLC

Cols(in) == IF in.ghi THEN {"T", "obs", "G"} ELSE {"T", "obs"}
\* was a finite value supplied for this cell?  (zero electric usage counts as missing)
Supplied(in, c, col) ==
  /\ c.row # "absent"
  /\ IF col = "obs" THEN c.obs = "fin" \/ (c.obs = "zero" /\ ~in.electric) ELSE c[col] = "fin"
ColName(col) == IF col = "T" THEN "temperature" ELSE IF col = "obs" THEN "observed" ELSE "ghi"

Clauses(in, out) ==
  LET n == Len(in.cells)
      ok == out.res = "ok" /\ Len(out.cells) = n IN
  << <<"PreparationReturns", out.res = "ok">>,
     <<"GapFreeWholeDayIndex", out.res = "ok" => out.index_ok>>,
     <<"SuppliedValuesUnchanged", ok => \A i \in 1..n : \A col \in Cols(in) : Supplied(in, in.cells[i], col) => out.cells[i][col].kept>>,
     <<"SuppliedValuesNotFlagged", ok => \A i \in 1..n : \A col \in Cols(in) : Supplied(in, in.cells[i], col) => ~out.cells[i][col].flag>>,
     <<"FilledValuesFlagged", ok => \A i \in 1..n : \A col \in Cols(in) :
          (~Supplied(in, in.cells[i], col) /\ in.emptyCol # ColName(col)) => out.cells[i][col].flag>>,
     <<"NothingRemainsMissing", ok => \A i \in 1..n : \A col \in Cols(in) : in.emptyCol # ColName(col) => out.cells[i][col].present>>,
     <<"RestOfTheFrameKeptAndFlaggedRight", out.res = "ok" => (out.pad.badValue = 0 /\ out.pad.badFlag = 0 /\ out.pad.missing = 0)>> >>
Failing(in, out) == LET c == Clauses(in, out) IN {c[k][1] : k \in {k \in 1..Len(c) : ~c[k][2]}}
=============================================================================
