------------------------------ MODULE PrepTrace ------------------------------
(* Trace validation for C17: recorded constructions of the hourly data classes  *)
(* judged cell by cell against PrepDefs.                                         *)
EXTENDS PrepDefs, Json, IOUtils, TLCExt
Cases == JsonDeserialize(IOEnv.TRACE_FILE)
VARIABLES i, nrej
Init == i = 1 /\ nrej = 0
Next == /\ i <= Len(Cases)
        /\ LET c == Cases[i]
               f == Failing(c.in, c.out)
           IN IF f = {} THEN nrej' = nrej
              ELSE PrintT(<<"REJECT", c.id, f>>) /\ nrej' = nrej + 1
        /\ i' = i + 1
Spec == Init /\ [][Next]_<<i, nrej>>
=============================================================================
