SPECIFICATION Spec
CONSTANTS
  WinLen = 2
INVARIANT OracleSelfConsistent
INVARIANT ZeroIsMissingOnlyForElectricity
