SPECIFICATION Spec
CONSTANTS
  WinLen = 3
INVARIANT OracleSelfConsistent
INVARIANT ZeroIsMissingOnlyForElectricity
