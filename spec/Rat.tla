--------------------------------- MODULE Rat ---------------------------------
(* Normalised rationals <<num, den>> (den > 0) on TLC's 32-bit integers. *)
EXTENDS Integers
Abs(x) == IF x < 0 THEN -x ELSE x
RECURSIVE Gcd(_, _)
Gcd(a, b) == IF b = 0 THEN a ELSE Gcd(b, a % b)
Norm(n, d) == IF n = 0 THEN <<0, 1>>
              ELSE LET s == IF d < 0 THEN -1 ELSE 1
                       g == Gcd(Abs(n), Abs(d))
                   IN <<(s * n) \div g, (s * d) \div g>>
R(n) == <<n, 1>>
Q(n, d) == Norm(n, d)
Add(a, b) == Norm(a[1] * b[2] + b[1] * a[2], a[2] * b[2])
Sub(a, b) == Norm(a[1] * b[2] - b[1] * a[2], a[2] * b[2])
Mul(a, b) == Norm(a[1] * b[1], a[2] * b[2])
Div(a, b) == Norm(a[1] * b[2], a[2] * b[1])
Neg(a) == <<-a[1], a[2]>>
Lt(a, b) == a[1] * b[2] < b[1] * a[2]
Le(a, b) == a[1] * b[2] <= b[1] * a[2]
Eq(a, b) == a[1] * b[2] = b[1] * a[2]
IsZero(a) == a[1] = 0
Zero == <<0, 1>>
Sq(a) == Mul(a, a)
=============================================================================
