------------------------------- MODULE Resample -------------------------------
(* Bounded enumeration for C08 / C09: billing cycles with period lengths on both *)
(* sides of 25 / 35 / 70 days and a clock change inside a period; sub-daily      *)
(* readings (15 / 30 / 60 min) and temperature feeds (30 / 60 min) on 23 / 24 /  *)
(* 25-hour days with every number k of missing readings, as a leading block or   *)
(* spread.  Theorems: conservation (the expected daily values of a kept period   *)
(* add up to the amount), the coverage rule is monotone.                         *)
EXTENDS ResampleDefs, SequencesExt
CONSTANTS MonthlyLens, BimonthlyLens, CalLens, CalLen
VARIABLES in, out, pc
vars == <<in, out, pc>>
Miss(total, k, how) == IF how = "lead" THEN [i \in 1..k |-> i] ELSE [i \in 1..k |-> 1 + ((i - 1) * total) \div k]
Per(l, e, a) == [len |-> l, extra |-> e, amount |-> a]
Init ==
  /\ \/ \E l \in MonthlyLens, e \in {-60, 0, 60} :
          in = [kind |-> "billing", cycle |-> "monthly", periods |-> <<Per(30, 0, 30 * 120), Per(l, e, 5 * (24 * l + e \div 60)), Per(31, 0, 31 * 48), Per(29, 0, 29 * 24)>>]
     \/ \E l \in BimonthlyLens, e \in {-60, 0, 60} :
          in = [kind |-> "billing", cycle |-> "bimonthly", periods |-> <<Per(61, 0, 61 * 24), Per(l, e, 5 * (24 * l + e \div 60)), Per(59, 0, 59 * 72)>>]
     \/ \E ls \in [1..CalLen -> CalLens] :       \* read calendars of any lengths (the cycle is not declared)
          /\ \E k \in 1..CalLen : ls[k] >= 25 /\ ls[k] <= 35
          /\ in = [kind |-> "calendar", periods |-> [k \in 1..CalLen |-> [len |-> ls[k], extra |-> 0, amount |-> 10 * (k + 1) * ls[k]]]]
     \/ \E n \in {8, 40}, f \in {"plain", "short", "long"}, ms \in {<<>>, <<3>>, <<2, 3, 6>>} :      \* daily readings (one a day, at local midnight)
          /\ (Len(ms) > 1 => n = 40)      \* (a week with three gaps has a median spacing above a day: the granularity of so short a series is anybody's guess)
          /\ in = [kind |-> "dailyreads", n |-> n, first |-> f, missing |-> ms]
     \/ \E iv \in {15, 30, 60}, dm \in {1380, 1440, 1500}, how \in {"lead", "spread"} : \E k \in 0..(dm \div iv) :
          /\ (k = 0 => how = "lead")
          /\ in = [kind |-> "subdaily", interval |-> iv, dayMin |-> dm, total |-> dm \div iv, missing |-> Miss(dm \div iv, k, how)]
     \/ \E iv \in {30, 60}, dm \in {1380, 1440, 1500}, how \in {"lead", "spread"}, mh \in {0, 6} : \E k \in 0..(dm \div iv) :
          /\ (k = 0 => how = "lead")
          /\ (mh = 6 => how = "spread" \/ k = 0)       \* mh: the local hour at which the meter is read (its day runs from mh:00 to mh:00)
          /\ in = [kind |-> "temp", interval |-> iv, dayMin |-> dm, total |-> dm \div iv, missing |-> Miss(dm \div iv, k, how), mh |-> mh]
  /\ out = [res |-> "pending"] /\ pc = "call"
Call == pc = "call" /\ out' = [res |-> "modelled"] /\ pc' = "done" /\ UNCHANGED in
Next == Call
Spec == Init /\ [][Next]_vars
\* conservation: (len plain days + the clock-change day) at the constant rate add up to the amount
Conservation == in.kind = "billing" => \A k \in 1..Len(in.periods) :
   LET p == in.periods[k]  rate == Q(p.amount, PeriodMinutes(p)) IN
   Eq(Add(Mul(rate, R(1440 * (p.len - 1))), Mul(rate, R(1440 + p.extra))), R(p.amount))
CycleReadingsExclusive == in.kind = "calendar" => ~(MonthlyDetermined(in) /\ BimonthlyDetermined(in))
CalendarConservation == in.kind = "calendar" => \A k \in 1..Len(in.periods) :
   LET p == in.periods[k]  rate == Q(p.amount, PeriodMinutes(p)) IN Eq(Mul(rate, R(PeriodMinutes(p))), R(p.amount))
CoverageRuleMonotone == in.kind \in {"subdaily", "temp"} => (MoreThanHalf(in) <=> 2 * Len(in.missing) < in.total)
MissingIndicesDistinct == in.kind \in {"subdaily", "temp"} => Cardinality(Set(in.missing)) = Len(in.missing)
=============================================================================
