----------------------------- MODULE ResampleDefs -----------------------------
(***************************************************************************)
(* C08 / C09 - interval arithmetic of the data classes on integer minutes. *)
(*  in.kind = "billing": [cycle, periods]   periods[k] = [len, extra,      *)
(*        amount]: length in local days, net clock shift inside the period *)
(*        in minutes (-60, 0, +60), billed amount (integer)                *)
(*     out = [res, periods]  periods[k] = [present, ndays, sn, sd, sok,    *)
(*        pn, pd, pok]: whether the period's days carry usage, how many,   *)
(*        their sum and the value of a plain 24-hour day (rationals)       *)
(*  in.kind = "calendar": [periods]  periods[k] = [len, extra, amount]:    *)
(*        a read calendar of any lengths; `extra` is measured by the       *)
(*        driver from the real dates; the cycle is NOT given: it is        *)
(*        whatever the calendar itself shows (readings below).  A period   *)
(*        without an amount is not expressible: in the frame the data      *)
(*        classes take, NaN means "no read on that day".                   *)
(*     out as for "billing"                                                *)
(*  in.kind = "dailyreads": [n, first, missing]  n daily readings, the     *)
(*        first day being a plain day ("plain") or a clock-change day       *)
(*        ("short": 23 hours, "long": 25 hours); reading i carries Val(i);  *)
(*        missing: indices without a value                                  *)
(*     out = [res, days]  days[i] = [has, n, d, ok] for i in 1..n-1 (the    *)
(*        final day, whose interval is open-ended, is excluded)             *)
(*  in.kind = "subdaily": [interval, dayMin, missing, total]               *)
(*        readings of `interval` minutes on a local day of dayMin minutes; *)
(*        missing: indices (1-based) of the readings without a value;      *)
(*        reading i carries Val(i)                                         *)
(*     out = [res, has, n, d, ok]  the day's usage                         *)
(*  in.kind = "temp": [interval, dayMin, missing, total, mh]               *)
(*        mh: local hour at which the meter is read; the meter day runs    *)
(*        from mh:00 to the next mh:00 and has dayMin minutes              *)
(*     out = [res, has, n, d, ok, notnull, null]  the day's temperature    *)
(*        and the coverage counts that feed the sufficiency test           *)
(***************************************************************************)
EXTENDS Integers, Sequences, FiniteSets, TLC, Rat

Set(s) == {s[i] : i \in 1..Len(s)}
Val(i) == 10 + ((7 * i) % 13)
RECURSIVE SumPresent(_, _)
SumPresent(in, k) == IF k = 0 THEN 0 ELSE SumPresent(in, k - 1) + (IF k \in Set(in.missing) THEN 0 ELSE Val(k))
Present(in) == in.total - Cardinality(Set(in.missing))
MoreThanHalf(in) == 2 * Present(in) > in.total
\* a day covered for more than half is scaled by 1 / coverage; half or less: missing
ExpUsage(in) == Q(SumPresent(in, in.total) * in.total, Present(in))
ExpTemp(in) == Q(SumPresent(in, in.total), Present(in))

Kept(cycle, len) == len >= 25 /\ len <= (IF cycle = "monthly" THEN 35 ELSE 70)
PeriodMinutes(p) == 1440 * p.len + p.extra

\* --- read calendars whose cycle is not declared -------------------------------------------------
\* a period is a candidate when it has an amount and is not an off-cycle short read
Cand(in) == {k \in 1..Len(in.periods) : in.periods[k].len >= 25}
Regular(p) == p.len >= 25 /\ p.len <= 35
Long(p) == p.len >= 36 /\ p.len <= 70
\* reading: the calendar is unarguably (pseudo-)monthly when all candidates but one are no longer than a calendar month
\* (at least two of them) and the remaining one could not be a genuine two-month read (<= 45 days); unarguably bi-monthly
\* when every candidate is at least 45 days.  Anything else is mixed: the statement does not say which limit applies and
\* either outcome is admitted for the long periods.
MonthlyDetermined(in) == /\ Cardinality({k \in Cand(in) : in.periods[k].len <= 31}) >= 2
                         /\ Cardinality({k \in Cand(in) : in.periods[k].len > 31}) <= 1
                         /\ \A k \in Cand(in) : in.periods[k].len <= 45
BimonthlyDetermined(in) == Cand(in) # {} /\ \A k \in Cand(in) : in.periods[k].len >= 45

Clauses(in, out) ==
  CASE in.kind = "billing" ->
      LET n == Len(in.periods)
          ok == out.res = "ok" /\ Len(out.periods) = n IN
      << <<"DataObjectBuilt", out.res = "ok" /\ Len(out.periods) = n>>,
         <<"OffCyclePeriodsDropped", ok => \A k \in 1..n : ~Kept(in.cycle, in.periods[k].len) => ~out.periods[k].present>>,
         <<"ValidPeriodsKept", ok => \A k \in 1..n : Kept(in.cycle, in.periods[k].len) => (out.periods[k].present /\ out.periods[k].ndays = in.periods[k].len)>>,
         <<"DailyValuesAddUpToTheBilledAmount", ok => \A k \in 1..n : Kept(in.cycle, in.periods[k].len) =>
                (out.periods[k].sok /\ Eq(<<out.periods[k].sn, out.periods[k].sd>>, R(in.periods[k].amount)))>>,
         <<"ConstantRateOverThePeriod", ok => \A k \in 1..n : Kept(in.cycle, in.periods[k].len) =>
                (out.periods[k].pok /\ Eq(<<out.periods[k].pn, out.periods[k].pd>>, Q(1440 * in.periods[k].amount, PeriodMinutes(in.periods[k]))))>> >>
    [] in.kind = "calendar" ->
      LET n == Len(in.periods)
          ok == out.res = "ok" /\ Len(out.periods) = n
          P(k) == in.periods[k]
          O(k) == out.periods[k]
          \* the quantifier excludes the final day (its interval is open-ended): the last period may come back a day short,
          \* and is judged on its amounts only when it is complete and no clock change falls inside it
          Days(k) == O(k).ndays = P(k).len \/ (k = n /\ O(k).ndays = P(k).len - 1)
          Judged(k) == O(k).present /\ O(k).ndays = P(k).len /\ (k < n \/ P(k).extra = 0) IN
      << <<"DataObjectBuilt", ok>>,
         \* (a last period with a clock change inside ends in the excluded final day: its length class is not judged)
         <<"OffCyclePeriodsDropped", ok => \A k \in 1..n : ((P(k).len < 25 \/ P(k).len > 70) /\ (k < n \/ P(k).extra = 0)) => ~O(k).present>>,
         <<"ValidPeriodsKept", ok => \A k \in 1..n : (Regular(P(k)) /\ (k < n \/ P(k).extra = 0)) => (O(k).present /\ Days(k))>>,
         <<"LongPeriodDroppedFromAMonthlyCalendar", ok => \A k \in 1..n : (Long(P(k)) /\ MonthlyDetermined(in)) => ~O(k).present>>,
         <<"LongPeriodKeptInABimonthlyCalendar", ok => \A k \in 1..n : (Long(P(k)) /\ BimonthlyDetermined(in)) => (O(k).present /\ Days(k))>>,
         <<"KeptPeriodIsWhole", ok => \A k \in 1..n : O(k).present => Days(k)>>,
         <<"DailyValuesAddUpToTheBilledAmount", ok => \A k \in 1..n : Judged(k) => (O(k).sok /\ Eq(<<O(k).sn, O(k).sd>>, R(P(k).amount)))>>,
         <<"ConstantRateOverThePeriod", ok => \A k \in 1..n : (O(k).present /\ (k < n \/ P(k).extra = 0)) =>
                (O(k).pok /\ Eq(<<O(k).pn, O(k).pd>>, Q(1440 * P(k).amount, PeriodMinutes(P(k)))))>> >>
    [] in.kind = "dailyreads" ->
      LET ok == out.res = "ok" /\ Len(out.days) = in.n - 1 IN
      << <<"DataObjectBuilt", ok>>,
         <<"DailyReadingKeptOnItsDay", ok => \A i \in 1..(in.n - 1) : i \notin Set(in.missing) =>
                (out.days[i].has /\ out.days[i].ok /\ Eq(<<out.days[i].n, out.days[i].d>>, R(Val(i))))>>,
         <<"NoUsageInventedOnADayWithoutReading", ok => \A i \in 1..(in.n - 1) : i \in Set(in.missing) => ~out.days[i].has>> >>
    [] in.kind = "subdaily" ->
      << <<"DataObjectBuilt", out.res = "ok">>,
         <<"DayCoveredHalfOrLessIsMissing", (out.res = "ok" /\ ~MoreThanHalf(in)) => ~out.has>>,
         \* "missing" is a value, not a day: every local day of the span has exactly one row in the data object (the judged day is never the first or last)
         <<"EveryDayOfTheSpanHasOneRow", out.res = "ok" => out.nrows = 1>>,
         <<"DayCoveredMoreThanHalfIsPresent", (out.res = "ok" /\ MoreThanHalf(in)) => out.has>>,
         <<"FullyCoveredDayIsTheSumOfItsReadings", (out.res = "ok" /\ Len(in.missing) = 0) => (out.has /\ out.ok /\ Eq(<<out.n, out.d>>, ExpUsage(in)))>>,
         <<"PartlyCoveredDayScaledByCoverage", (out.res = "ok" /\ MoreThanHalf(in) /\ Len(in.missing) > 0) => (out.has /\ out.ok /\ Eq(<<out.n, out.d>>, ExpUsage(in)))>> >>
    [] in.kind = "temp" ->
      << <<"DataObjectBuilt", out.res = "ok">>,
         <<"DayWithHalfOrFewerReadingsIsMissing", (out.res = "ok" /\ ~MoreThanHalf(in)) => ~out.has>>,
         <<"DailyTemperatureIsTheMeanOfTheReadingsPresent", (out.res = "ok" /\ MoreThanHalf(in)) => (out.has /\ out.ok /\ Eq(<<out.n, out.d>>, ExpTemp(in)))>>,
         \* (nometer: a reporting period for which only the weather feed was handed over; the counts are not read there)
         <<"CoverageCountsExact", (out.res = "ok" /\ ~("nometer" \in DOMAIN in)) => (out.notnull = Present(in) /\ out.null = Cardinality(Set(in.missing)))>> >>
Failing(in, out) == LET c == Clauses(in, out) IN {c[k][1] : k \in {k \in 1..Len(c) : ~c[k][2]}}
=============================================================================
