---------------------------- MODULE ResampleTrace ----------------------------
(* Trace validation for C08 / C09: recorded data-class constructions judged on   *)
(* exact interval arithmetic (ResampleDefs).                                      *)
EXTENDS ResampleDefs, Json, IOUtils, TLCExt
Cases == JsonDeserialize(IOEnv.TRACE_FILE)
VARIABLES i, nrej
Init == i = 1 /\ nrej = 0
Next == /\ i <= Len(Cases)
        /\ LET c == Cases[i]
               f == Failing(c.in, c.out)
           IN IF f = {} THEN nrej' = nrej
              ELSE PrintT(<<"REJECT", c.id, f>>) /\ nrej' = nrej + 1
        /\ i' = i + 1
Spec == Init /\ [][Next]_<<i, nrej>>
=============================================================================
