SPECIFICATION Spec
CONSTANTS
  MonthlyLens = {15, 24, 25, 30, 35, 36, 40}
  BimonthlyLens = {24, 25, 59, 61, 70, 71}
INVARIANT Conservation
INVARIANT CoverageRuleMonotone
INVARIANT MissingIndicesDistinct
