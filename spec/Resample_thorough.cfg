SPECIFICATION Spec
CONSTANTS
  MonthlyLens = {15, 24, 25, 30, 35, 36, 40}
  BimonthlyLens = {24, 25, 59, 61, 70, 71}
  CalLens = {20, 25, 30, 31, 35, 36, 61, 70, 71}
  CalLen = 4
INVARIANT Conservation
INVARIANT CycleReadingsExclusive
INVARIANT CalendarConservation
INVARIANT CoverageRuleMonotone
INVARIANT MissingIndicesDistinct
