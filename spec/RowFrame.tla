------------------------------ MODULE RowFrame ------------------------------
(* Bounded enumeration of row patterns for C07 / C06.  The only action applies  *)
(* the P-layer's expected outcome; the theorems guard the oracle itself: on the *)
(* expected outcome observed and predicted are masked together, and the column  *)
(* sums differ by exactly the row-wise savings.                                  *)
EXTENDS RowFrameDefs
CONSTANTS MaxRows, Fams
VARIABLES in, out, pc
vars == <<in, out, pc>>
Classes == [T : {"fin", "nan", "inf", "ninf"}, obs : {"fin", "nan", "neg"}]       \* "neg": a finite, negative reading (net export, a credit)
Model == [c |-> 10, hb |-> 1, hbp |-> 50, cb |-> 2, cbp |-> 60]
Row(cl, k) == [T |-> cl.T, Tint |-> cl.T = "fin", Tv |-> IF cl.T = "fin" THEN 20 + ((13 * k) % 70) ELSE 0, obs |-> IF cl.obs = "neg" THEN "fin" ELSE cl.obs, ov |-> IF cl.obs = "fin" THEN 100 + (k % 17) ELSE IF cl.obs = "neg" THEN -(1000 + (k % 17)) ELSE 0]
Expected(i) ==
  LET n == Len(i.rows)
      rows == [k \in 1..n |-> [pred |-> ExpPred(i, k), pv |-> IF Usable(i, k) THEN Curve(i.model, i.rows[k].Tv) ELSE 0,
                               obs |-> IF ObsSupplied(i) /\ Usable(i, k) THEN "fin" ELSE "nan",
                               ov |-> IF ObsSupplied(i) /\ Usable(i, k) THEN i.rows[k].ov ELSE 0, exact |-> TRUE, loadsOk |-> TRUE]]
  IN [res |-> "ok", rows_ok |-> TRUE, rows |-> rows, obsCol |-> ObsSupplied(i),
      sumPred |-> ExpSumPred(i), sumObs |-> IF ObsSupplied(i) THEN ExpSumObs(i) ELSE 0,
      sumRow |-> IF ObsSupplied(i) THEN ExpSumPred(i) - ExpSumObs(i) ELSE 0]
Init == /\ \E f \in Fams, n \in 1..MaxRows : \E r \in [1..n -> Classes] :
             in = [fam |-> f, model |-> Model, rows |-> [k \in 1..n |-> Row(r[k], k)]]
        /\ out = [res |-> "pending"] /\ pc = "call"
Call == pc = "call" /\ out' = Expected(in) /\ pc' = "done" /\ UNCHANGED in
Next == Call
Spec == Init /\ [][Next]_vars
OracleSelfConsistent == pc = "done" => Failing(in, out) = {}
MaskedTogetherOnOracle == pc = "done" /\ out.obsCol => \A k \in 1..Len(out.rows) : (out.rows[k].pred = "fin") <=> (out.rows[k].obs = "fin")
=============================================================================
