---------------------------- MODULE RowFrameDefs ----------------------------
(***************************************************************************)
(* C07 (and the daily/billing finiteness clause of C06): per-row presence   *)
(* patterns of DailyModel / BillingModel predict.                          *)
(*   in  = [fam, rows]   rows[i] = [T, obs]                                 *)
(*           T   in {"fin", "nan", "inf", "ninf"}   temperature of the row  *)
(*           obs in {"fin", "nan"}                   usage of the row (a    *)
(*                 finite reading may be negative)                          *)
(*   out = [res, rows_ok, rows, obsCol, sumPred, sumObs, sumRow]            *)
(*           rows[i] = [pred, obs, obsSame, predRight]                      *)
(*             pred/obs in {"fin", "nan"}; obsSame: the observed value is   *)
(*             the supplied one; predRight: the prediction is the formula's *)
(*           sums are integers (integer loads, integer coefficients)        *)
(* Usage counts as supplied when at least one row carries a value (the data *)
(* classes drop an all-empty observed column).                              *)
(***************************************************************************)
EXTENDS Integers, Sequences, FiniteSets, TLC

\* rows[i] = [T, Tv, obs, ov]: class and integer value (0 when the class is not "fin"); model = [c, hb, hbp, cb, cbp] integers
ObsSupplied(in) == \E i \in 1..Len(in.rows) : in.rows[i].obs = "fin"
Usable(in, i) == in.rows[i].T = "fin" /\ (ObsSupplied(in) => in.rows[i].obs = "fin")
ExpPred(in, i) == IF Usable(in, i) THEN "fin" ELSE "nan"
Pos(x) == IF x > 0 THEN x ELSE 0
\* the documented piecewise formula, from the document's parameters alone
Curve(m, t) == m.c + m.hb * Pos(m.hbp - t) + m.cb * Pos(t - m.cbp)
RECURSIVE SumUpTo(_, _, _)
SumUpTo(f, in, k) == IF k = 0 THEN 0 ELSE SumUpTo(f, in, k - 1) + (IF Usable(in, k) THEN f[k] ELSE 0)
ExpSumPred(in) == SumUpTo([k \in 1..Len(in.rows) |-> Curve(in.model, in.rows[k].Tv)], in, Len(in.rows))
ExpSumObs(in)  == SumUpTo([k \in 1..Len(in.rows) |-> in.rows[k].ov], in, Len(in.rows))

\* exact integer arithmetic applies when every usable row carries integer temperature and usage (the drivers arrange that)
\* (a usage reading may be negative - net export, a billing credit -: such readings are realised as integers <= -1000; the small
\*  negative numbers -1, -2, -7 are the drivers' markers for "finite but not an integer")
AllInt(in) == \A i \in 1..Len(in.rows) : Usable(in, i) => (in.rows[i].Tint /\ (in.rows[i].ov >= 0 \/ in.rows[i].ov <= -1000))
Clauses(in, out) ==
  LET n == Len(in.rows)
      ok == out.res = "ok" /\ Len(out.rows) = n IN
  << <<"PredictReturns", out.res \in {"ok", "noobject"}>>,       \* "noobject": the data class refused the frame, predict was not called
     <<"OneRowPerInputTimestamp", out.res = "ok" => (out.rows_ok /\ Len(out.rows) = n)>>,
     <<"PredictedExactlyOnUsableRows", ok => \A i \in 1..n : out.rows[i].pred = ExpPred(in, i)>>,
     <<"ObservedColumnIffSupplied", ok => (out.obsCol <=> ObsSupplied(in))>>,
     <<"MaskedTogether", (ok /\ out.obsCol) => \A i \in 1..n : (out.rows[i].pred = "fin") <=> (out.rows[i].obs = "fin")>>,
     <<"ObservedKeptOnUsableRows", (ok /\ out.obsCol) => \A i \in 1..n : Usable(in, i) => (out.rows[i].obs = "fin" /\ out.rows[i].ov = in.rows[i].ov)>>,
     <<"PredictionIsTheFormula", ok => \A i \in 1..n : (out.rows[i].pred = "fin" /\ in.rows[i].Tint) => (out.rows[i].exact /\ out.rows[i].pv = Curve(in.model, in.rows[i].Tv))>>,
     <<"LoadsAddUp", ok => \A i \in 1..n : out.rows[i].pred = "fin" => out.rows[i].loadsOk>>,
     <<"ColumnSumsAreTheUsableRows", (ok /\ AllInt(in)) => (out.sumPred = ExpSumPred(in) /\ (out.obsCol => out.sumObs = ExpSumObs(in)))>>,
     <<"ColumnSumsEqualRowwiseSavings", (ok /\ out.obsCol /\ AllInt(in)) => out.sumPred - out.sumObs = out.sumRow>> >>
Failing(in, out) == LET c == Clauses(in, out) IN {c[k][1] : k \in {k \in 1..Len(c) : ~c[k][2]}}
=============================================================================
