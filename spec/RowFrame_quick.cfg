SPECIFICATION Spec
CONSTANTS
  MaxRows = 4
  Fams = {"daily", "billing"}
INVARIANT OracleSelfConsistent
INVARIANT MaskedTogetherOnOracle
