SPECIFICATION Spec
CONSTANTS
  MaxRows = 5
  Fams = {"daily", "billing"}
INVARIANT OracleSelfConsistent
INVARIANT MaskedTogetherOnOracle
