------------------------------ MODULE Schedule ------------------------------
(***************************************************************************)
(* C03 - fitting a batch of meters on a fleet of worker processes.         *)
(* A schedule assigns every meter of the batch to one of up to MaxProcs    *)
(* cold-started worker processes, fixes the order inside each worker, the   *)
(* worker's thread count and what the worker did before (warm kind).        *)
(* Workers then run in any interleaving.  The P-layer says the content of   *)
(* a fitted model is a function of (family, profile, seed, baseline) alone: *)
(* `Deterministic` - whatever the schedule and interleaving, a meter ends   *)
(* with the same abstract core.  The initial states (= all schedules) are   *)
(* dumped and replayed with real OS processes; LifecycleTrace's interp map  *)
(* then demands one hash per abstract core across the whole batch of        *)
(* schedules.                                                               *)
(***************************************************************************)
EXTENDS Integers, Sequences, FiniteSets, SequencesExt, FiniteSetsExt, TLC
CONSTANTS Meters, MaxProcs, ThreadSet, WarmSet
VARIABLES sched, pos, result
vars == <<sched, pos, result>>

Perms(S) == {s \in [1..Cardinality(S) -> S] : \A i, j \in 1..Cardinality(S) : i # j => s[i] # s[j]}
MeterSeqs == UNION {Perms(S) : S \in (SUBSET Meters) \ {{}}}
SeqSet(q) == {q[i] : i \in 1..Len(q)}
\* first the assignment of meters to workers (a sequence of disjoint, ordered blocks covering the batch; workers are
\* interchangeable, so blocks are listed by their smallest meter), then each worker's thread count and warm kind
\* (built in two steps: the plain product [1..n -> Workers] exceeds TLC's set-size limit for the thorough constants)
Assignments ==
  {a \in UNION {[1..n -> MeterSeqs] : n \in 1..MaxProcs} :
     /\ \A i, j \in 1..Len(a) : i # j => SeqSet(a[i]) \cap SeqSet(a[j]) = {}
     /\ UNION {SeqSet(a[i]) : i \in 1..Len(a)} = Meters
     /\ \A i \in 1..(Len(a) - 1) : Min(SeqSet(a[i])) < Min(SeqSet(a[i + 1]))}
Schedules ==
  UNION {{[i \in 1..Len(a) |-> [threads |-> t[i], warm |-> w[i], meters |-> a[i]]] : t \in [1..Len(a) -> ThreadSet], w \in [1..Len(a) -> WarmSet]} :
         a \in Assignments}
MetersOf(w) == SeqSet(w.meters)

Core(m) == <<"core", m>>                 \* no thread count, no warm kind, no position, no worker
Init == sched \in Schedules /\ pos = [i \in 1..Len(sched) |-> 0] /\ result = [m \in Meters |-> <<"none">>]
FitNext(i) ==
  /\ pos[i] < Len(sched[i].meters)
  /\ pos' = [pos EXCEPT ![i] = @ + 1]
  /\ result' = [result EXCEPT ![sched[i].meters[pos[i] + 1]] = Core(sched[i].meters[pos[i] + 1])]
  /\ UNCHANGED sched
Next == \E i \in 1..Len(sched) : FitNext(i)
Spec == Init /\ [][Next]_vars
Deterministic == \A m \in Meters : result[m] \in {<<"none">>, Core(m)}
AllFitted == (\A i \in 1..Len(sched) : pos[i] = Len(sched[i].meters)) => \A m \in Meters : result[m] = Core(m)
=============================================================================
