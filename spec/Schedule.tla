------------------------------ MODULE Schedule ------------------------------
(***************************************************************************)
(* C03 - fitting a batch of meters on a fleet of worker processes.         *)
(* A schedule assigns every meter of the batch to one of up to MaxProcs    *)
(* cold-started worker processes, fixes the order inside each worker, the   *)
(* worker's thread count and what the worker did before (warm kind).        *)
(* Workers then run in any interleaving.  The P-layer says the content of   *)
(* a fitted model is a function of (family, profile, seed, baseline) alone: *)
(* `Deterministic` - whatever the schedule and interleaving, a meter ends   *)
(* with the same abstract core.  The initial states (= all schedules) are   *)
(* dumped and replayed with real OS processes; LifecycleTrace's interp map  *)
(* then demands one hash per abstract core across the whole batch of        *)
(* schedules.                                                               *)
(***************************************************************************)
EXTENDS Integers, Sequences, FiniteSets, SequencesExt, FiniteSetsExt, TLC
CONSTANTS Meters, MaxProcs, ThreadSet, WarmSet
VARIABLES sched, pos, result
vars == <<sched, pos, result>>

Perms(S) == {s \in [1..Cardinality(S) -> S] : \A i, j \in 1..Cardinality(S) : i # j => s[i] # s[j]}
Workers == [threads : ThreadSet, warm : WarmSet, meters : UNION {Perms(S) : S \in (SUBSET Meters) \ {{}}}]
MetersOf(w) == {w.meters[i] : i \in 1..Len(w.meters)}
Schedules ==
  {s \in UNION {[1..n -> Workers] : n \in 1..MaxProcs} :
     /\ \A i, j \in 1..Len(s) : i # j => MetersOf(s[i]) \cap MetersOf(s[j]) = {}
     /\ UNION {MetersOf(s[i]) : i \in 1..Len(s)} = Meters
     /\ \A i \in 1..(Len(s) - 1) : Min(MetersOf(s[i])) < Min(MetersOf(s[i + 1]))}     \* workers are interchangeable

Core(m) == <<"core", m>>                 \* no thread count, no warm kind, no position, no worker
Init == sched \in Schedules /\ pos = [i \in 1..Len(sched) |-> 0] /\ result = [m \in Meters |-> <<"none">>]
FitNext(i) ==
  /\ pos[i] < Len(sched[i].meters)
  /\ pos' = [pos EXCEPT ![i] = @ + 1]
  /\ result' = [result EXCEPT ![sched[i].meters[pos[i] + 1]] = Core(sched[i].meters[pos[i] + 1])]
  /\ UNCHANGED sched
Next == \E i \in 1..Len(sched) : FitNext(i)
Spec == Init /\ [][Next]_vars
Deterministic == \A m \in Meters : result[m] \in {<<"none">>, Core(m)}
AllFitted == (\A i \in 1..Len(sched) : pos[i] = Len(sched[i].meters)) => \A m \in Meters : result[m] = Core(m)
=============================================================================
