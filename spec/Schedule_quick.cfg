SPECIFICATION Spec
CONSTANTS
  Meters = {1, 2, 3}
  MaxProcs = 3
  ThreadSet = {1, 4}
  WarmSet = {"none", "rng", "otherfit"}
INVARIANT Deterministic
INVARIANT AllFitted
