SPECIFICATION Spec
CONSTANTS
  Meters = {1, 2, 3}
  MaxProcs = 3
  ThreadSet = {1, 4, 16}
  WarmSet = {"none", "rng", "otherfit", "settings", "otherhourly"}
INVARIANT Deterministic
INVARIANT AllFitted
