--------------------------------- MODULE Seg ---------------------------------
(* Bounded enumeration for C18 and the theorems of the weight tables and the    *)
(* bin function: partition of unity (each month has full weight in exactly one  *)
(* three-month-weighted segment, half weight in exactly its two neighbours),    *)
(* prediction routing is the inverse of "full weight", bins sum to T, are       *)
(* prefix-filled and never exceed their width.                                  *)
EXTENDS SegDefs, SequencesExt, FiniteSetsExt
CONSTANTS Years, Zones, Temps, Endpoints
VARIABLES in, out, pc
vars == <<in, out, pc>>
TempsQuick == {-5, 29, 30, 31, 44, 45, 46, 50, 55, 64, 65, 66, 75, 89, 90, 91, 100}
TempsThorough == {-5 + 5 * k : k \in 0..21} \cup {29, 31, 44, 46, 54, 56, 64, 66, 74, 76, 89, 91}
Types == {"single", "one_month", "three_month", "three_month_weighted"}
SortedSubseqs == {SetToSortSeq(S, <) : S \in SUBSET Endpoints}
Expected(i) ==
  CASE i.kind = "weights" -> [res |-> "ok", nd |-> 1, w2 |-> ExpW2(i.type, i.m), colsOk |-> TRUE]
    [] i.kind = "route" -> IF HasModel(i) THEN [res |-> "ok", nd |-> 1, code |-> i.m, nnan |-> 0] ELSE [res |-> "ok", nd |-> 0, code |-> -1, nnan |-> 1]
    [] i.kind = "bins" -> [res |-> "ok", bins |-> Bins(i.T, i.E), exact |-> TRUE]
    [] i.kind = "occ" -> [res |-> "ok", exact |-> TRUE, obins |-> IF i.occ = 1 THEN Bins(i.T, i.Eo) ELSE Zeros(Len(i.Eo) + 1),
                          ubins |-> IF i.occ = 0 THEN Bins(i.T, i.Eu) ELSE Zeros(Len(i.Eu) + 1)]
    [] i.kind = "how" -> [res |-> "ok", how |-> 24 * i.dow + i.hour, n |-> 1]
Init ==
  /\ \/ \E t \in Types, y \in Years, m \in 1..12, z \in Zones : in = [kind |-> "weights", type |-> t, y |-> y, m |-> m, tz |-> z]
     \/ \E y \in Years, m \in 1..12, z \in Zones, f \in {"all", "djf"} : in = [kind |-> "route", y |-> y, m |-> m, tz |-> z, fit |-> f]
     \/ \E T \in Temps, E \in SortedSubseqs : in = [kind |-> "bins", T |-> T, E |-> E]
     \/ \E o \in {0, 1}, T \in Temps, Eo \in SortedSubseqs, Eu \in SortedSubseqs :
          /\ Len(Eo) + Len(Eu) <= 4
          /\ in = [kind |-> "occ", occ |-> o, T |-> T, Eo |-> Eo, Eu |-> Eu]
     \/ \E d \in 0..6, h \in 0..23, w \in HowWeeks : in = [kind |-> "how", dow |-> d, hour |-> h, wk |-> w]
  /\ out = [res |-> "pending"] /\ pc = "call"
Call == pc = "call" /\ out' = Expected(in) /\ pc' = "done" /\ UNCHANGED in
Next == Call
Spec == Init /\ [][Next]_vars
OracleSelfConsistent == pc = "done" => Failing(in, out) = {}
\* theorems of the tables (state-independent, evaluated once per state for simplicity)
PartitionOfUnity == \A m \in 1..12 :
  /\ Cardinality({s \in 1..12 : W2("three_month_weighted", s, m) = 2}) = 1
  /\ {s \in 1..12 : W2("three_month_weighted", s, m) = 1} = {Prev(m), Nxt(m)}
  /\ Cardinality({s \in 1..12 : W2("three_month", s, m) = 2}) = 3
  /\ Cardinality({s \in 1..12 : W2("one_month", s, m) = 2}) = 1
RoutingInvertsFullWeight == \A m \in 1..12 : W2("three_month_weighted", m, m) = 2
BinTheorems == in.kind = "bins" =>
  LET b == Bins(in.T, in.E)  n == Len(in.E) IN
  /\ SumSeq(b, Len(b)) = in.T
  /\ \A i \in 2..Len(b) : b[i] >= 0
  /\ \A i \in 2..n : b[i] <= in.E[i] - in.E[i - 1]
  /\ \A i \in 2..Len(b) : b[i] > 0 => (i = 2 \/ b[i - 1] = in.E[i - 1] - in.E[i - 2]) /\ b[1] = in.E[1]   \* prefix-filled
HowOnto == {24 * d + h : d \in 0..6, h \in 0..23} = 0..167
=============================================================================
