------------------------------- MODULE SegDefs -------------------------------
(***************************************************************************)
(* C18 - CalTRACK hourly: month weights at fit time, month routing at      *)
(* prediction time, temperature-bin features, occupancy split, hour of     *)
(* week.  Weights are carried doubled (2 = full, 1 = half) so that         *)
(* everything is an integer.  A segment is identified by its centre month  *)
(* (three-month types), its month (one_month) or 1 (single).               *)
(*  in.kind = "weights": [type, y, m, tz]   out = [res, nd, w2, colsOk]    *)
(*     nd: number of distinct weight rows among all hours of that month    *)
(*  in.kind = "route":   [y, m, tz, fit]    out = [res, nd, code, nnan]    *)
(*     fit: "all" - a model for every month; "djf" - models for December,  *)
(*     January and February only (a short baseline)                        *)
(*     nd: number of distinct values among the predicted hours of month m; *)
(*     code: centre month of the fitted model that produced the hours      *)
(*  in.kind = "bins":    [T, E]             out = [res, bins, exact]       *)
(*  in.kind = "occ":     [occ, T, Eo, Eu]   out = [res, obins, ubins, exact] *)
(*  in.kind = "how":     [dow, hour, wk]    out = [res, how, n]            *)
(*     wk names a Monday-to-Sunday week of local hours (HowWeeks: a plain week,  *)
(*     weeks whose Sunday has 23 or 25 hours in four zones, one with the change  *)
(*     at midnight); n = rows of that week with this weekday and clock hour,     *)
(*     how = their common hour_of_week (-1 when they disagree or n = 0)          *)
(***************************************************************************)
EXTENDS Integers, Sequences, FiniteSets, TLC

\* weeks of the hour-of-week cases (the driver's table HOW_WEEKS has the same order): 0 plain; 1, 4, 5, 7 end on a 23-hour
\* Sunday (7: the change is at local midnight); 2, 3, 6 end on a 25-hour Sunday
HowWeeks == 0..7
SpringWeeks == {1, 4, 5, 7}
Prev(m) == IF m = 1 THEN 12 ELSE m - 1
Nxt(m)  == IF m = 12 THEN 1 ELSE m + 1
NSeg(type) == IF type = "single" THEN 1 ELSE 12
W2(type, seg, m) ==
  CASE type = "single" -> 2
    [] type = "one_month" -> IF seg = m THEN 2 ELSE 0
    [] type = "three_month" -> IF m \in {Prev(seg), seg, Nxt(seg)} THEN 2 ELSE 0
    [] type = "three_month_weighted" -> IF m = seg THEN 2 ELSE IF m \in {Prev(seg), Nxt(seg)} THEN 1 ELSE 0
ExpW2(type, m) == [seg \in 1..NSeg(type) |-> W2(type, seg, m)]

Min2(a, b) == IF a < b THEN a ELSE b
Max2(a, b) == IF a > b THEN a ELSE b
Clamp(x, lo, hi) == Max2(lo, Min2(x, hi))
\* E: strictly increasing sequence of endpoints; Len(E)+1 bins
Bins(T, E) ==
  LET n == Len(E) IN
  IF n = 0 THEN <<T>>
  ELSE [i \in 1..(n + 1) |->
          IF i = 1 THEN Min2(T, E[1])
          ELSE IF i = n + 1 THEN Max2(T - E[n], 0)
          ELSE Clamp(T - E[i - 1], 0, E[i] - E[i - 1])]
RECURSIVE SumSeq(_, _)
SumSeq(s, k) == IF k = 0 THEN 0 ELSE SumSeq(s, k - 1) + s[k]
Zeros(n) == [i \in 1..n |-> 0]

HasModel(in) == in.fit = "all" \/ in.m \in {12, 1, 2}
Clauses(in, out) ==
  CASE in.kind = "weights" ->
      << <<"SegmentationReturns", out.res = "ok">>,
         <<"DocumentedSegmentColumns", out.res = "ok" => out.colsOk>>,
         <<"SameWeightsForEveryHourOfTheMonth", out.res = "ok" => out.nd = 1>>,
         <<"FullWeightInOwnMonthHalfInNeighbours", (out.res = "ok" /\ out.nd = 1) => out.w2 = ExpW2(in.type, in.m)>> >>
    [] in.kind = "route" ->
      \* a month without a model of its own may come back without values (or the call may raise); it must never carry
      \* values - those could only come from other months' models
      << <<"PredictReturns", HasModel(in) => out.res = "ok">>,
         <<"EveryHourPredicted", (out.res = "ok" /\ HasModel(in)) => out.nnan = 0>>,
         <<"PredictedOnlyByOwnMonthsModel", out.res = "ok" => IF HasModel(in) THEN (out.nd = 1 /\ out.code = in.m) ELSE out.nd = 0>> >>
    [] in.kind = "bins" ->
      << <<"BinFeaturesReturn", out.res = "ok">>,
         <<"BinsSumToTemperature", out.res = "ok" => (out.exact /\ SumSeq(out.bins, Len(out.bins)) = in.T)>>,
         <<"EachBinFilledInOrderUpToItsWidth", out.res = "ok" => out.bins = Bins(in.T, in.E)>> >>
    [] in.kind = "occ" ->
      << <<"FeatureProcessorReturns", out.res = "ok">>,
         <<"NeverBothOccupiedAndUnoccupied", out.res = "ok" =>
              ((\A i \in 1..Len(out.obins) : out.obins[i] = 0) \/ (\A i \in 1..Len(out.ubins) : out.ubins[i] = 0))>>,
         <<"ActiveModeCarriesTheBins", out.res = "ok" =>
              (out.exact /\ out.obins = (IF in.occ = 1 THEN Bins(in.T, in.Eo) ELSE Zeros(Len(in.Eo) + 1))
                         /\ out.ubins = (IF in.occ = 0 THEN Bins(in.T, in.Eu) ELSE Zeros(Len(in.Eu) + 1)))>> >>
    [] in.kind = "how" ->
      << <<"TimeFeaturesReturn", out.res = "ok">>,
         <<"HourOfWeekIs24TimesWeekdayPlusHour", out.res = "ok" => (out.n = 0 \/ out.how = 24 * in.dow + in.hour)>>,
         <<"OnlyASkippedClockHourIsAbsent", out.res = "ok" => (out.n \in {1, 2} \/ (out.n = 0 /\ in.wk \in SpringWeeks /\ in.dow = 6))>> >>
Failing(in, out) == LET c == Clauses(in, out) IN {c[k][1] : k \in {k \in 1..Len(c) : ~c[k][2]}}
=============================================================================
