------------------------------ MODULE SegTrace ------------------------------
(* Trace validation for C18: recorded calls of segment_time_series, a segmented *)
(* model with provenance-tagged month models, compute_temperature_bin_features, *)
(* the CalTRACK prediction feature processor and compute_time_features.         *)
EXTENDS SegDefs, Json, IOUtils, TLCExt
Cases == JsonDeserialize(IOEnv.TRACE_FILE)
VARIABLES i, nrej
Init == i = 1 /\ nrej = 0
Next == /\ i <= Len(Cases)
        /\ LET c == Cases[i]
               f == Failing(c.in, c.out)
           IN IF f = {} THEN nrej' = nrej
              ELSE PrintT(<<"REJECT", c.id, f>>) /\ nrej' = nrej + 1
        /\ i' = i + 1
Spec == Init /\ [][Next]_<<i, nrej>>
=============================================================================
