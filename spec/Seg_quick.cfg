SPECIFICATION Spec
CONSTANTS
  Years = {2023, 2024}
  Zones = {"America/Chicago", "UTC"}
  Temps <- TempsQuick
  Endpoints = {30, 45, 55, 65, 75, 90}
INVARIANT OracleSelfConsistent
INVARIANT PartitionOfUnity
INVARIANT RoutingInvertsFullWeight
INVARIANT BinTheorems
INVARIANT HowOnto
