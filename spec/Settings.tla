------------------------------ MODULE Settings ------------------------------
(* Exhaustive enumeration for C14: every field of every tree x {default value,   *)
(* alternative, invalid} x developer mode x key spelling x dict/object form, the *)
(* no-argument constructions, the cross-field rules and the stored-settings      *)
(* cases.  Theorems: the lock table is total (every developer field has an       *)
(* alternative to try) and the expected outcome is a function of the table.      *)
EXTENDS SettingsDefs
VARIABLES in, out, pc
vars == <<in, out, pc>>
Trees == {"current", "legacy", "billing", "hourly"}
Init ==
  /\ \/ \E t \in Trees : in = [kind |-> "default", tree |-> t]
     \/ \E k \in 1..Len(Fields), c \in {"def", "alt", "bad"}, dm \in BOOLEAN, sl \in BOOLEAN, sp \in {"plain", "upper", "padded", "lowerpad", "tabnl", "pathpad", "pathupper"}, fm \in {"dict", "object"} :
          /\ (c = "alt" => Fields[k].alt # "")
          \* case and padding separately (a lower-case key with blanks / tab and newline around it), and on every component of a nested path
          /\ (sp \in {"lowerpad", "tabnl", "pathpad", "pathupper"} => c # "def" /\ fm = "dict")
          /\ (Fields[k].tree = "hourly" => ~dm /\ ~sl)
          /\ (sl /\ ~dm => c = "alt" /\ sp = "plain")        \* the silent flag alone is tried against every field's alternative
          /\ in = [kind |-> "construct", tree |-> Fields[k].tree, fi |-> k, choice |-> c, devmode |-> dm, silent |-> sl, spelling |-> sp, form |-> fm]
     \/ \E ci \in 1..Len(CrossCases) : in = [kind |-> "cross", tree |-> CrossCases[ci].tree, ci |-> ci]
     \/ \E k \in 1..Len(Fields) : /\ Fields[k].alt # "" /\ Fields[k].tree # "current"
                                  /\ Fields[k].path \in {"season.march", "weekday_weekend.friday", "uncertainty_alpha", "cvrmse_threshold", "scaling_method", "min_daily_training_hours",
                                                           "supplemental_time_series_columns"}
                                  /\ in = [kind |-> "stored", tree |-> Fields[k].tree, fi |-> k]
  /\ out = [res |-> "pending"] /\ pc = "call"
Expected(i) ==
  CASE i.kind = "default" -> [res |-> "accepted", dump |-> <<>>, same |-> TRUE]
    [] i.kind = "construct" -> [res |-> ExpRes(i), dump |-> <<>>, same |-> TRUE]
    [] i.kind = "cross" -> [res |-> IF CrossCases[i.ci].expect = "rejected" THEN "rejected" ELSE "accepted", nodev |-> "accepted", dump |-> <<>>, same |-> TRUE]
    [] i.kind = "stored" -> [res |-> "accepted", dump |-> <<>>, same |-> TRUE]
Call == pc = "call" /\ out' = Expected(in) /\ pc' = "done" /\ UNCHANGED in
Next == Call
Spec == Init /\ [][Next]_vars
\* every developer-only field has an alternative value, so the lock is exercised for every such field
LockIsExercisedForEveryDeveloperField == \A k \in 1..Len(Fields) : Fields[k].dev => Fields[k].alt # ""
\* every field has an invalid value to try
EveryFieldHasAnInvalidValue == \A k \in 1..Len(Fields) : Fields[k].bad # ""
\* paths are unique inside a tree, so the dump comparison is well defined
PathsUnique == \A a, b \in 1..Len(Fields) : (Fields[a].tree = Fields[b].tree /\ Fields[a].path = Fields[b].path) => a = b
=============================================================================
