----------------------------- MODULE SettingsDefs -----------------------------
(***************************************************************************)
(* C14 - approved-method settings and the developer lock.                  *)
(* SettingsTable!Fields pins, for every field of the current / legacy /    *)
(* billing / hourly trees: the approved constant, whether the field is     *)
(* developer-only, one valid alternative and one invalid value.            *)
(*  in.kind = "default"   [tree]                                           *)
(*  in.kind = "construct" [tree, fi, choice, devmode, silent, spelling,   *)
(*        form]                                                           *)
(*        choice in {"def", "alt", "bad"}: the value given for field fi    *)
(*  in.kind = "cross"     [tree, ci]        a cross-field rule (CrossCases) *)
(*  in.kind = "stored"    [tree, fi]        build, fit, save: settings kept *)
(*  out = [res, dump, same]   res in {"accepted", "rejected"};             *)
(*        dump: sequence of <<path, canonical value>> of the built object  *)
(***************************************************************************)
EXTENDS Integers, Sequences, FiniteSets, TLC, SettingsTable

FieldsOf(tree) == {k \in 1..Len(Fields) : Fields[k].tree = tree}
PinnedDump(tree) == {<<Fields[k].path, Fields[k].def>> : k \in FieldsOf(tree)}
DumpSet(d) == {<<d[k][1], d[k][2]>> : k \in 1..Len(d)}
\* only developer_mode opens the lock; silent_developer_mode merely silences the notice and opens nothing by itself
Locked(in) == Fields[in.fi].dev /\ ~in.devmode
ExpRes(in) ==
  IF in.choice = "bad" THEN "rejected"
  ELSE IF in.choice = "alt" /\ Locked(in) THEN "rejected"
  ELSE "accepted"
ExpDump(in) ==
  LET f == Fields[in.fi] IN
  (PinnedDump(in.tree) \ {<<f.path, f.def>>}) \cup {<<f.path, IF in.choice = "alt" THEN f.altdump ELSE f.def>>}

\* cross-field rules of the statement's "invalid values are rejected": [tree, over (JSON of the overrides), expect]
CrossCases == <<
  [tree |-> "current", over |-> "{\"alpha_final\": null}", expect |-> "rejected"],
  [tree |-> "current", over |-> "{\"final_bounds_scalar\": null}", expect |-> "rejected"],
  [tree |-> "current", over |-> "{\"alpha_final_type\": null, \"final_bounds_scalar\": null, \"alpha_final\": null}", expect |-> "accepted"],
  [tree |-> "current", over |-> "{\"final_bounds_scalar\": -1.0}", expect |-> "rejected"],
  [tree |-> "current", over |-> "{\"initial_step_percentage\": 0.6}", expect |-> "rejected"],
  [tree |-> "current", over |-> "{\"initial_step_percentage\": null}", expect |-> "rejected"],
  [tree |-> "current", over |-> "{\"alpha_final\": 3.0}", expect |-> "rejected"],
  [tree |-> "current", over |-> "{\"alpha_final\": \"sometimes\"}", expect |-> "rejected"],
  [tree |-> "legacy", over |-> "{\"split_selection\": {\"reduce_splits_num_std\": [1.0]}}", expect |-> "rejected"],
  [tree |-> "legacy", over |-> "{\"split_selection\": {\"reduce_splits_num_std\": [1.0, -1.0]}}", expect |-> "rejected"],
  [tree |-> "legacy", over |-> "{\"season\": {\"january\": \"monsoon\"}}", expect |-> "rejected"],
  [tree |-> "legacy", over |-> "{\"weekday_weekend\": {\"friday\": \"holiday\"}}", expect |-> "rejected"],
  [tree |-> "legacy", over |-> "{\"uncertainty_alpha\": 1.5}", expect |-> "rejected"],
  [tree |-> "legacy", over |-> "{\"season\": {\"march\": \"winter\"}, \"weekday_weekend\": {\"friday\": \"weekend\"}, \"uncertainty_alpha\": 0.2}", expect |-> "acceptedNoDev"],
  \* hourly tree: the iteration controls of the adaptive weights go with the switch (presence, not truthiness: 0 is a permitted tolerance)
  [tree |-> "hourly", over |-> "{\"elasticnet\": {\"adaptive_weights\": true}}", expect |-> "rejected"],
  [tree |-> "hourly", over |-> "{\"elasticnet\": {\"adaptive_weights\": true, \"adaptive_weight_max_iter\": 5}}", expect |-> "rejected"],
  [tree |-> "hourly", over |-> "{\"elasticnet\": {\"adaptive_weights\": true, \"adaptive_weight_max_iter\": 5, \"adaptive_weight_tol\": 0.001}}", expect |-> "accepted"],
  [tree |-> "hourly", over |-> "{\"elasticnet\": {\"adaptive_weights\": true, \"adaptive_weight_max_iter\": 5, \"adaptive_weight_tol\": 0.0}}", expect |-> "accepted"],
  [tree |-> "hourly", over |-> "{\"elasticnet\": {\"adaptive_weight_tol\": 0.0}}", expect |-> "rejected"],
  [tree |-> "hourly", over |-> "{\"elasticnet\": {\"adaptive_weight_max_iter\": 5}}", expect |-> "rejected"],
  [tree |-> "hourly", over |-> "{\"elasticnet\": {\"adaptive_weight_tol\": 0.001}}", expect |-> "rejected"]
>>

Clauses(in, out) ==
  CASE in.kind = "default" ->
      << <<"ConstructsWithoutArguments", out.res = "accepted">>,
         <<"DefaultsAreExactlyTheApprovedConstants", out.res = "accepted" => DumpSet(out.dump) = PinnedDump(in.tree)>> >>
    [] in.kind = "construct" ->
      << <<"DeveloperSettingLockedWithoutDeveloperMode", (in.choice = "alt" /\ Locked(in)) => out.res = "rejected">>,
         <<"InvalidValueRejected", in.choice = "bad" => out.res = "rejected">>,
         <<"PermittedSettingAccepted", ExpRes(in) = "accepted" => out.res = "accepted">>,
         <<"OnlyTheRequestedFieldChanges", (ExpRes(in) = "accepted" /\ out.res = "accepted") => DumpSet(out.dump) = ExpDump(in)>> >>
    [] in.kind = "cross" ->
      << <<"CrossFieldRule", LET c == CrossCases[in.ci] IN
            IF c.expect = "rejected" THEN out.res = "rejected"
            ELSE IF c.expect = "accepted" THEN out.res = "accepted"
            ELSE out.res = "accepted" /\ out.nodev = "accepted">> >>      \* non-developer settings need no developer mode
    [] in.kind = "stored" ->
      << <<"ModelBuilds", out.res = "accepted">>,
         <<"StoredSettingsAreTheOnesTheModelWasBuiltWith", out.res = "accepted" => out.same>> >>
Failing(in, out) == LET c == Clauses(in, out) IN {c[k][1] : k \in {k \in 1..Len(c) : ~c[k][2]}}
=============================================================================
