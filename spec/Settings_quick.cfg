SPECIFICATION Spec
INVARIANT LockIsExercisedForEveryDeveloperField
INVARIANT EveryFieldHasAnInvalidValue
INVARIANT PathsUnique
