-------------------------------- MODULE Split --------------------------------
(* Bounded model for C13.  Theorems on the I-layer (the generator as written):  *)
(* it yields exactly the closed form (a partition per day type and a set of     *)
(* shared blocks promoted to the full week: 48 candidates), every kept          *)
(* candidate is an exact cover, the unsplit model always survives trimming, no  *)
(* kept candidate uses a cleared flag or an unsupported season / weekend.       *)
(* Routing theorem: under every map and layout each date has exactly one route. *)
EXTENDS SplitDefs, SequencesExt, FiniteSetsExt
CONSTANTS DaySet, WeSet, Years
VARIABLES in, out, pc
vars == <<in, out, pc>>
SeasonMaps == {
  <<"wi","wi","sh","sh","sh","su","su","su","su","sh","wi","wi">>,          \* default
  <<"wi","wi","wi","sh","sh","su","su","su","sh","sh","sh","wi">>,          \* March winter, September shoulder
  <<"su","su","sh","sh","wi","wi","wi","wi","sh","sh","su","su">> }         \* southern hemisphere
WeekMaps == {
  <<"wd","wd","wd","wd","wd","we","we">>,
  <<"wd","wd","wd","wd","we","we","we">>,                                     \* Friday weekend
  <<"we","wd","wd","wd","wd","wd","we">> }
\* canonical sequence form of a candidate given as a set of <<pre, block>>
SeasonSeq(B) == SelectSeq(<<"su", "sh", "wi">>, LAMBDA s : s \in B)
Layouts == {[k \in 1..Cardinality(c) |-> [pre |-> SetToSeq(c)[k][1], seasons |-> SeasonSeq(SetToSeq(c)[k][2])]] : c \in Closed}
Init ==
  /\ \/ \E a \in [{"su","sh","wi","wdwe"} -> BOOLEAN], ds \in [{"su","sh","wi"} -> DaySet], ws \in [{"su","sh","wi"} -> WeSet], g \in BOOLEAN :
          /\ \A s \in Seasons : ws[s] <= ds[s]
          /\ (g => \A s \in Seasons : ds[s] >= 30)
          /\ in = [kind |-> "cands", allow |-> a, days |-> ds, wedays |-> ws, gauss |-> g]
     \/ \E sp \in Layouts, sm \in SeasonMaps, wm \in WeekMaps, y \in Years, m \in 1..12 :
          in = [kind |-> "route", split |-> sp, smap |-> sm, wmap |-> wm, y |-> y, m |-> m]
     \/ \E n \in {"good", "other", "regimes", "weekend", "flat"} : in = [kind |-> "select", name |-> n]
  /\ out = [res |-> "pending"] /\ pc = "call"
Call == pc = "call" /\ out' = [res |-> "modelled"] /\ pc' = "done" /\ UNCHANGED in
Next == Call
Spec == Init /\ [][Next]_vars
GenIsClosed == Generated = Closed /\ Cardinality(Generated) = 48
IPAll == (pc = "done" /\ in.kind = "cands") =>
  /\ \A c \in ICandidates(in) : IExactCover(c)
  /\ UnsplitSet \in ICandidates(in)
  /\ \A c \in ICandidates(in) : c # UnsplitSet =>
        /\ ~((\E comp \in c : comp[1] # "fw") /\ ~in.allow.wdwe)
        /\ ~(\E comp \in c : \E s \in Seasons : comp[2] = {s} /\ ~AllowS(in, s))
        /\ \A comp \in c : Sum3(in.wedays, comp[2]) >= MinWe
RouteUnique == (pc = "done" /\ in.kind = "route") => \A d \in 1..DaysIn(in.y, in.m) : Cardinality(RouteIdx(in, d)) = 1
LayoutsAreCovers == \A c \in Layouts : ExactCover(c)
=============================================================================
