------------------------------ MODULE SplitDefs ------------------------------
(***************************************************************************)
(* C13 - candidate splits of the daily model, routing of days to sub-models *)
(* and selection.  A candidate is a sequence of components                 *)
(* [pre, seasons]: pre in {"fw", "wd", "we"} (full week / weekdays /       *)
(* weekend), seasons a sequence over {"su", "sh", "wi"}.                   *)
(*  in.kind = "cands":  [allow, days, wedays, gauss]   out = [res, cands]  *)
(*      allow = [su, sh, wi, wdwe] flags; days / wedays = [su, sh, wi]     *)
(*      baseline days (weekend days) per season                            *)
(*  in.kind = "route":  [split, smap, wmap, y, m]      out = [res, routes] *)
(*      smap: 12 season codes by month, wmap: 7 day-type codes by weekday  *)
(*      (1 = Monday); routes[d] = index of the component that predicted    *)
(*      day d of month m of year y                                         *)
(*  in.kind = "select": [name]              out = [res, cands, best, ranks] *)
(*      ranks[k]: rank of candidate k's selection criterion (1 = lowest)   *)
(***************************************************************************)
EXTENDS Integers, Sequences, FiniteSets, TLC, Cal

Seasons == {"su", "sh", "wi"}
DayTypes == {"wd", "we"}
Set(s) == {s[i] : i \in 1..Len(s)}
MinDays == 30
MinWe == 8                \* split_min_days / 3.75
Covering(c, s, t) == {k \in 1..Len(c) : s \in Set(c[k].seasons) /\ (c[k].pre = t \/ c[k].pre = "fw")}
ExactCover(c) == \A s \in Seasons, t \in DayTypes : Cardinality(Covering(c, s, t)) = 1
WellFormed(c) == \A k \in 1..Len(c) : c[k].pre \in {"fw", "wd", "we"} /\ Set(c[k].seasons) \subseteq Seasons /\ Len(c[k].seasons) >= 1
IsUnsplit(c) == Len(c) = 1 /\ c[1].pre = "fw" /\ Set(c[1].seasons) = Seasons
Sum3(f, B) == (IF "su" \in B THEN f.su ELSE 0) + (IF "sh" \in B THEN f.sh ELSE 0) + (IF "wi" \in B THEN f.wi ELSE 0)
Forbidden(in, c) ==
  \/ (\E k \in 1..Len(c) : c[k].pre # "fw") /\ ~in.allow.wdwe
  \/ \E k \in 1..Len(c) : \E s \in Seasons : Set(c[k].seasons) = {s} /\ ~(in.allow[s] /\ in.days[s] >= MinDays)
Unsupported(in, c) == \E k \in 1..Len(c) : Sum3(in.wedays, Set(c[k].seasons)) < MinWe

RouteIdx(in, d) ==
  LET t  == <<in.y, in.m, d>>
      se == in.smap[in.m]
      dt == in.wmap[Weekday(t)]
  IN {k \in 1..Len(in.split) : se \in Set(in.split[k].seasons) /\ (in.split[k].pre = dt \/ in.split[k].pre = "fw")}

CandClauses(in, cands) ==
  << <<"EveryCandidatePartitionsTheCalendar", \A i \in 1..Len(cands) : WellFormed(cands[i]) /\ ExactCover(cands[i])>>,
     <<"UnsplitModelIsAlwaysACandidate", \E i \in 1..Len(cands) : IsUnsplit(cands[i])>> >>
Clauses(in, out) ==
  CASE in.kind = "cands" ->
      << <<"CandidatesReturn", out.res = "ok">> >>
      \o (IF out.res = "ok" THEN CandClauses(in, out.cands) ELSE <<>>)
      \o << <<"ForbiddenSplitsNeverConsidered", out.res = "ok" => \A i \in 1..Len(out.cands) : IsUnsplit(out.cands[i]) \/ ~Forbidden(in, out.cands[i])>>,
            <<"UnsupportedSplitsNeverConsidered", out.res = "ok" => \A i \in 1..Len(out.cands) : IsUnsplit(out.cands[i]) \/ ~Unsupported(in, out.cands[i])>> >>
    [] in.kind = "route" ->
      << <<"PredictReturns", out.res = "ok">>,
         <<"OneRouteForEveryDayOfTheMonth", out.res = "ok" => Len(out.routes) = DaysIn(in.y, in.m)>>,
         <<"EachDayPredictedByTheSubModelOfItsCell", (out.res = "ok" /\ Len(out.routes) = DaysIn(in.y, in.m)) =>
              \A d \in 1..DaysIn(in.y, in.m) : RouteIdx(in, d) = {out.routes[d]}>> >>
    [] in.kind = "select" ->
      << <<"FitReturns", out.res = "ok">> >>
      \o (IF out.res = "ok" THEN CandClauses(in, out.cands) ELSE <<>>)
      \o << <<"ChosenSplitIsACandidate", out.res = "ok" => out.best \in 1..Len(out.cands)>>,
            <<"ChosenSplitHasTheLowestCriterion", (out.res = "ok" /\ out.best \in 1..Len(out.cands)) => out.ranks[out.best] = 1>>,
            <<"StoredSubModelsAreTheChosenSplit", out.res = "ok" => out.storedIsBest>> >>
Failing(in, out) == LET c == Clauses(in, out) IN {c[k][1] : k \in {k \in 1..Len(c) : ~c[k][2]}}

----------------------------------------------------------------------------
\* I-layer: the generator as written (product, three rounds of expansion to the full week, trimming), on sets
Parts == { {{"su","sh","wi"}}, {{"su"},{"sh","wi"}}, {{"su","sh"},{"wi"}}, {{"su","wi"},{"sh"}}, {{"su"},{"sh"},{"wi"}} }
Blocks == UNION Parts
UnsplitSet == {<<"fw", {"su","sh","wi"}>>}
Base == { {<<"wd", b>> : b \in pwd} \cup {<<"we", b>> : b \in pwe} : pwd \in Parts, pwe \in Parts }
Expand(C) == C \cup { (c \ {<<"wd", b>>, <<"we", b>>}) \cup {<<"fw", b>>} :
                        <<c, b>> \in { <<c, b>> \in C \X Blocks : <<"wd", b>> \in c /\ <<"we", b>> \in c } }
Generated == Expand(Expand(Expand(Base)))
Closed == { {<<"fw", b>> : b \in M} \cup {<<"wd", b>> : b \in pwd \ M} \cup {<<"we", b>> : b \in pwe \ M} :
            <<pwd, pwe, M>> \in { <<pwd, pwe, M>> \in Parts \X Parts \X SUBSET Blocks : M \subseteq pwd \cap pwe } }
AllowS(in, s) == in.allow[s] /\ in.days[s] >= MinDays
Keep(in, c) == \/ c = UnsplitSet
               \/ /\ ((\E comp \in c : comp[1] = "wd") => in.allow.wdwe)
                  /\ \A comp \in c : /\ (Cardinality(comp[2]) = 1 => \A s \in comp[2] : AllowS(in, s))
                                    /\ Sum3(in.wedays, comp[2]) >= MinWe
ICandidates(in) == { c \in Generated : Keep(in, c) }
ICovering(c, s, t) == { comp \in c : s \in comp[2] /\ (comp[1] = t \/ comp[1] = "fw") }
IExactCover(c) == \A s \in Seasons, t \in DayTypes : Cardinality(ICovering(c, s, t)) = 1
=============================================================================
