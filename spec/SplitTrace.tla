----------------------------- MODULE SplitTrace -----------------------------
(* Trace validation for C13: recorded candidate lists, per-day routing of       *)
(* constructed split documents and selections of real fits, against SplitDefs.  *)
EXTENDS SplitDefs, Json, IOUtils, TLCExt
Cases == JsonDeserialize(IOEnv.TRACE_FILE)
VARIABLES i, nrej
Init == i = 1 /\ nrej = 0
Next == /\ i <= Len(Cases)
        /\ LET c == Cases[i]
               f == Failing(c.in, c.out)
           IN IF f = {} THEN nrej' = nrej
              ELSE PrintT(<<"REJECT", c.id, f>>) /\ nrej' = nrej + 1
        /\ i' = i + 1
Spec == Init /\ [][Next]_<<i, nrej>>
=============================================================================
