SPECIFICATION Spec
CONSTANTS
  DaySet = {0, 29, 30, 200}
  WeSet = {0, 7, 8, 60}
  Years = {2023, 2024}
INVARIANT GenIsClosed
INVARIANT IPAll
INVARIANT RouteUnique
INVARIANT LayoutsAreCovers
