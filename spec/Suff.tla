--------------------------------- MODULE Suff ---------------------------------
(* Bounded enumeration for C10: spans around 329 / 365, missing-day counts at each *)
(* 90 % threshold -1 / 0 / +1, three placements, overlapping or disjoint usage and  *)
(* temperature gaps, class x role x fuel x negatives.  Theorems guard the oracle:   *)
(* verdicts are monotone in the gaps and the thresholds are where the statement     *)
(* puts them.                                                                       *)
EXTENDS SuffDefs, SequencesExt, FiniteSetsExt
CONSTANTS Spans, Classes, StartSet
VARIABLES in, out, pc
vars == <<in, out, pc>>
StartsAll == {<<2019, 1, 1>>, <<2019, 3, 15>>, <<2019, 11, 20>>}
StartsQuick == {<<2019, 1, 1>>, <<2019, 3, 15>>}
Starts == StartSet
\* largest count of missing days that still passes: 10 (S - 1 - k) >= 9 S
KCrit(S) == (S - 10) \div 10
Counts(S) == {0, KCrit(S) - 1, KCrit(S), KCrit(S) + 1, KCrit(S) + 6} \cap 0..(S - 2)
\* placements of k missing days among offsets 1..S-2
Block(S, k, a) == [i \in 1..k |-> a + i - 1]
Spread(S, k) == IF k = 0 THEN <<>> ELSE [i \in 1..k |-> 1 + ((i - 1) * (S - 2)) \div k]
Place(S, k, how) ==
  CASE how = "blockMid" -> Block(S, k, (S - k) \div 2)
    [] how = "blockEarly" -> Block(S, k, 1)
    [] how = "spread" -> Spread(S, k)
    [] how = "blockLate" -> Block(S, k, S - 1 - k)        \* the last k days before the final one: in a span of more than a year, days of the SECOND year
\* monthly-rule cases: k consecutive days of ONE calendar month without temperature (hourly baselines: or without usage), k on
\* both sides of 90 % of that month: 30 days (3 of 30 is exactly 90 %: allowed), 31 days, February, and the partial first month
MonthTargets(st) == IF st = <<2019, 1, 1>> THEN {<<2019, 4>>, <<2019, 5>>, <<2019, 2>>}
                    ELSE IF st = <<2019, 3, 15>> THEN {<<2019, 4>>, <<2019, 5>>, <<2020, 2>>, <<2019, 3>>}
                    ELSE {<<2020, 4>>, <<2020, 2>>}
MonthBlock(st, mk, k) ==
  LET first == IF mk = <<st[1], st[2]>> THEN st[3] + 5 ELSE 5
      off   == Ordinal(<<mk[1], mk[2], first>>) - Ordinal(st) IN [i \in 1..k |-> off + i - 1]
MonthCase ==
  \E c \in Classes, r \in {"baseline", "reporting"}, st \in Starts, k \in 1..4, col \in {"t", "o"} : \E mk \in MonthTargets(st) :
     /\ (col = "o" => c = "hourly" /\ r = "baseline")
     /\ (c = "billing" => st = <<2019, 1, 1>>)
     /\ 365 \in Spans
     /\ in = [cls |-> c, role |-> r, electric |-> TRUE, negatives |-> FALSE, start |-> st, span |-> 365,
              omiss |-> IF col = "o" THEN MonthBlock(st, mk, k) ELSE <<>>, tmiss |-> IF col = "t" THEN MonthBlock(st, mk, k) ELSE <<>>,
              lead |-> 0, trail |-> 0, mcase |-> TRUE, empty |-> "none"]
SpanCase ==
  \E c \in Classes, r \in {"baseline", "reporting"}, el \in BOOLEAN, ng \in BOOLEAN, st \in Starts, S \in Spans :
     \E k1 \in Counts(S), k2 \in Counts(S), h1 \in {"blockMid", "spread"}, h2 \in {"blockMid", "blockEarly", "spread"}, ld \in {0, 6}, tr \in {0, 5} :
       /\ S # 420
       /\ (ld + tr > 0 => r = "baseline" /\ c = "daily" /\ h1 = "blockMid" /\ h2 = "blockMid" /\ el /\ ~ng)
       /\ (r = "reporting" => k1 \in {0, KCrit(S) + 6} /\ ~ng /\ el)       \* usage gaps of a reporting period must not matter
       /\ (c = "billing" => k1 = 0)            \* billing usage is given per period, its gaps are Resample's (C08) question
       /\ (c = "billing" => st = <<2019, 1, 1>> /\ h2 # "blockEarly" /\ (S \in {329, 330, 364, 365} \/ (S \in {328, 340} /\ k2 = 0)))   \* the last calendar month is a regular period (>= 25 days), or - once - an off-cycle one   \* billing spans are realised as whole calendar months from 1 January
       /\ (ng => ~el)
       /\ (k1 = 0 => h1 = "blockMid") /\ (k2 = 0 => h2 = "blockMid")
       /\ in = [cls |-> c, role |-> r, electric |-> el, negatives |-> ng, start |-> st, span |-> S,
                omiss |-> Place(S, k1, h1), tmiss |-> Place(S, k2, h2), lead |-> ld, trail |-> tr, mcase |-> FALSE, empty |-> "none"]
\* a span well over a year (420 days) whose gaps lie in its SECOND year (the last days before the final one)
LateCase ==
  \E c \in Classes \ {"billing"}, r \in {"baseline", "reporting"}, el \in BOOLEAN, ng \in BOOLEAN : \E k1 \in Counts(420), k2 \in Counts(420) :
     /\ 420 \in Spans /\ k1 + k2 > 0
     /\ (r = "reporting" => k1 \in {0, KCrit(420) + 6} /\ ~ng /\ el)
     /\ (ng => ~el)
     /\ in = [cls |-> c, role |-> r, electric |-> el, negatives |-> ng, start |-> <<2019, 1, 1>>, span |-> 420,
              omiss |-> Place(420, k1, "blockLate"), tmiss |-> Place(420, k2, "blockLate"), lead |-> 0, trail |-> 0, mcase |-> FALSE, empty |-> "none"]
EmptyCase ==
  \E c \in Classes, r \in {"baseline", "reporting"}, e \in {"usage", "temp"}, el \in BOOLEAN :
     /\ 365 \in Spans
     /\ in = [cls |-> c, role |-> r, electric |-> el, negatives |-> FALSE, start |-> <<2019, 1, 1>>, span |-> 365,
              omiss |-> <<>>, tmiss |-> <<>>, lead |-> 0, trail |-> 0, mcase |-> TRUE, empty |-> e]
Init ==
  /\ (MonthCase \/ SpanCase \/ LateCase \/ EmptyCase)
  /\ out = [res |-> "pending"] /\ pc = "call"
Call == /\ pc = "call"
        /\ LET v == SetToSortSeq(IF in.empty # "none" THEN (IF in.empty = "temp" \/ IsBase(in) THEN {NoData} ELSE {}) ELSE IF Edge(in) THEN Must(in) \cap ({LenName} \cup CoverageNames) ELSE Must(in), LAMBDA a, b : TRUE) IN
           out' = [res |-> "ok", dq |-> v, warn |-> <<>>, dqSeries |-> v]
        /\ pc' = "done" /\ UNCHANGED in
Next == Call
Spec == Init /\ [][Next]_vars
OracleSelfConsistent == pc = "done" => Failing(in, out) = {}
MustWithinMay == pc = "done" => Must(in) \subseteq May(in)
\* the threshold is exactly where the statement puts it
ThresholdExact == \A S \in Spans : ~Under90(S - 1 - KCrit(S), S) /\ Under90(S - 1 - (KCrit(S) + 1), S)
LengthRule == \A S \in Spans : (S > 365 \/ S < 329) <=> ~(329 <= S /\ S <= 365)
PlacementsValid == \A i \in 1..Len(in.omiss) : in.omiss[i] \in 1..(in.span - 2)
=============================================================================
