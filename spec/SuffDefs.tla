------------------------------- MODULE SuffDefs -------------------------------
(***************************************************************************)
(* C10 - data sufficiency verdicts of the daily / billing / hourly data    *)
(* classes, on integers.                                                   *)
(*  in = [cls, role, electric, negatives, start, span, omiss, tmiss,       *)
(*        lead, trail, mcase, empty]   empty: "none" | "usage" | "temp" -   *)
(*        the whole usage / temperature column is missing                  *)
(*     cls in {"daily", "billing", "hourly"}, role in {"baseline",         *)
(*     "reporting"}; start = <<y, m, d>>; span = number of local days;     *)
(*     omiss / tmiss: increasing sequences of day offsets (0-based, never  *)
(*     the first or last day) whose usage / temperature is missing.        *)
(*     lead / trail: days before the first / after the last day of the span  *)
(*     that are present in the supplied FRAME but carry no usage.  The        *)
(*     series entry point trims such days before judging; the statement       *)
(*     demands the same verdict from every entry point, so they are not part  *)
(*     of the span.                                                           *)
(*  out = [res, dq, warn, dqSeries]   sequences of qualified names; dqSeries: *)
(*     the verdict of the from_series entry point on the same data            *)
(***************************************************************************)
(***************************************************************************)
(* Each timestamp's period runs to the next timestamp; the last one counts *)
(* zero (the statement's parenthesis), so a span of S days has S - 1       *)
(* countable days and the thresholds compare against S.                    *)
(***************************************************************************)
EXTENDS Integers, Sequences, FiniteSets, TLC, Cal

P == "eemeter.sufficiency_criteria."
Set(s) == {s[i] : i \in 1..Len(s)}
Countable(in) == in.span - 1
ValidObs(in)  == Countable(in) - Cardinality(Set(in.omiss))
ValidTemp(in) == Countable(in) - Cardinality(Set(in.tmiss))
ValidBoth(in) == Countable(in) - Cardinality(Set(in.omiss) \cup Set(in.tmiss))
Under90(valid, total) == 10 * valid < 9 * total
IsBase(in) == in.role = "baseline"

\* calendar month <<y, m>> of the day `off` days after day d of month m of year y (month stepping, not day stepping)
RECURSIVE MonthOfOff(_, _, _, _)
MonthOfOff(y, m, d, off) ==
  IF d + off <= DaysIn(y, m) THEN <<y, m>>
  ELSE MonthOfOff(IF m = 12 THEN y + 1 ELSE y, IF m = 12 THEN 1 ELSE m + 1, 0, d + off - DaysIn(y, m))
\* the calendar months the span touches, as records [y, m, n]: n = days of the span inside that month
RECURSIVE MonthsFrom(_, _, _, _)
MonthsFrom(y, m, d, left) ==          \* d: day of month of the first remaining day; left: days remaining
  IF left <= 0 THEN <<>>
  ELSE LET n == IF DaysIn(y, m) - d + 1 < left THEN DaysIn(y, m) - d + 1 ELSE left IN
       <<[y |-> y, m |-> m, n |-> n]>> \o MonthsFrom(IF m = 12 THEN y + 1 ELSE y, IF m = 12 THEN 1 ELSE m + 1, 1, left - n)
\* reading A: months by number (January 2019 and January 2020 pooled); reading B: by (year, month).
\* Returns <<underA, underB>> for the sequence `miss` of missing day offsets.  Month-level arithmetic only.
MonthReadings(in, miss) ==
  LET ms == MonthsFrom(in.start[1], in.start[2], in.start[3], in.span)
      mm == [j \in 1..Len(miss) |-> MonthOfOff(in.start[1], in.start[2], in.start[3], miss[j])]
      goneB(k) == Cardinality({j \in 1..Len(miss) : mm[j] = <<ms[k].y, ms[k].m>>})
      goneA(mn) == Cardinality({j \in 1..Len(miss) : mm[j][2] = mn})
      RECURSIVE DaysA(_, _)
      DaysA(mn, k) == IF k = 0 THEN 0 ELSE DaysA(mn, k - 1) + (IF ms[k].m = mn THEN ms[k].n ELSE 0)
      underB == \E k \in 1..Len(ms) : 10 * (ms[k].n - goneB(k)) < 9 * ms[k].n
      underA == \E mn \in {ms[k].m : k \in 1..Len(ms)} : 10 * (DaysA(mn, Len(ms)) - goneA(mn)) < 9 * DaysA(mn, Len(ms))
  IN <<underA, underB>>
MonthRuleCertain(in, miss) == IF Len(miss) = 0 THEN FALSE ELSE LET r == MonthReadings(in, miss) IN r[1] /\ r[2]
MonthRuleExcluded(in, miss) == IF Len(miss) = 0 THEN TRUE ELSE LET r == MonthReadings(in, miss) IN ~r[1] /\ ~r[2]

\* criteria that are certainly violated / certainly satisfied (they coincide except for the monthly rules, where the
\* statement's "any calendar month" admits two readings for spans that meet the same month number twice)
Must(in) ==
  (IF IsBase(in) /\ (in.span > 365 \/ in.span < 329) THEN {P \o "incorrect_number_of_total_days"} ELSE {})
  \cup (IF Under90(IF IsBase(in) THEN ValidBoth(in) ELSE ValidTemp(in), in.span) THEN {P \o "too_many_days_with_missing_data"} ELSE {})
  \cup (IF IsBase(in) /\ Under90(ValidObs(in), in.span) THEN {P \o "too_many_days_with_missing_meter_data"} ELSE {})
  \cup (IF Under90(ValidTemp(in), in.span) THEN {P \o "too_many_days_with_missing_temperature_data"} ELSE {})
  \cup (IF MonthRuleCertain(in, in.tmiss) THEN {P \o "missing_monthly_temperature_data"} ELSE {})
  \cup (IF in.cls = "hourly" /\ IsBase(in) /\ MonthRuleCertain(in, in.omiss) THEN {P \o "missing_monthly_meter_data"} ELSE {})
  \cup (IF IsBase(in) /\ ~in.electric /\ in.negatives THEN {P \o "negative_meter_values"} ELSE {})
May(in) ==
  Must(in)
  \cup (IF ~MonthRuleExcluded(in, in.tmiss) THEN {P \o "missing_monthly_temperature_data"} ELSE {})
  \cup (IF in.cls = "hourly" /\ IsBase(in) /\ ~MonthRuleExcluded(in, in.omiss) THEN {P \o "missing_monthly_meter_data"} ELSE {})
WarningOnly == {P \o "extreme_values_detected", "eemeter.data_quality.utc_index", P \o "offcycle_reads_in_billing_monthly_data",
                P \o "unable_to_confirm_daily_temperature_sufficiency", P \o "inferior_model_usage",
                P \o "missing_high_frequency_temperature_data", P \o "missing_high_frequency_meter_data"}

Edge(in) == in.lead + in.trail > 0
LenName == P \o "incorrect_number_of_total_days"
CoverageNames == {P \o "too_many_days_with_missing_data", P \o "too_many_days_with_missing_meter_data", P \o "too_many_days_with_missing_temperature_data"}
\* the coverage verdicts of a baseline when c days of the span are countable.  from_series trims the edge days, so the last
\* day of the span is the last timestamp and counts zero (c = span - 1); in a frame with trailing days the last day of the
\* span has a next timestamp and its period may be counted (c = span): both follow the statement's parenthesis
CovSet(in, c) ==
  (IF Under90(c - Cardinality(Set(in.omiss) \cup Set(in.tmiss)), in.span) THEN {P \o "too_many_days_with_missing_data"} ELSE {})
  \cup (IF Under90(c - Cardinality(Set(in.omiss)), in.span) THEN {P \o "too_many_days_with_missing_meter_data"} ELSE {})
  \cup (IF Under90(c - Cardinality(Set(in.tmiss)), in.span) THEN {P \o "too_many_days_with_missing_temperature_data"} ELSE {})
EdgeClauses(in, out) ==
  << <<"WellFormedInputAccepted", out.res = "ok">>,
     <<"SpanCriterionIgnoresEdgeDaysWithoutUsage", out.res = "ok" =>
          ((LenName \in Set(out.dq)) <=> (in.span > 365 \/ in.span < 329)) /\ ((LenName \in Set(out.dqSeries)) <=> (LenName \in Set(out.dq)))>>,
     <<"CoverageVerdictSameFromBothEntryPoints", out.res = "ok" =>
          /\ Set(out.dqSeries) \cap CoverageNames = CovSet(in, in.span - 1)
          /\ Set(out.dq) \cap CoverageNames \in {CovSet(in, in.span - 1)} \cup (IF in.trail > 0 THEN {CovSet(in, in.span)} ELSE {})>>,
     <<"WarningsNeverInTheVerdict", out.res = "ok" => Set(out.dq) \cap WarningOnly = {}>> >>
\* all usage or all temperature missing: "no data at all" is a criterion of its own; usage is optional for reporting data
NoData == P \o "no_data"
EmptyClauses(in, out) ==
  << <<"WellFormedInputAccepted", out.res = "ok">>,
     <<"NoDataAtAllReported", (out.res = "ok" /\ (in.empty = "temp" \/ IsBase(in))) => NoData \in Set(out.dq)>>,
     <<"UsageIsOptionalForReportingData", (out.res = "ok" /\ in.empty = "usage" /\ ~IsBase(in)) => Set(out.dq) \ WarningOnly = {}>>,
     <<"WarningsNeverInTheVerdict", out.res = "ok" => Set(out.dq) \cap (WarningOnly \ {P \o "offcycle_reads_in_billing_monthly_data"}) = {}>> >>
Clauses(in, out) ==
  IF in.empty # "none" THEN EmptyClauses(in, out) ELSE
  IF Edge(in) THEN EdgeClauses(in, out) ELSE
  << <<"WellFormedInputAccepted", out.res = "ok">>,
     <<"EveryViolatedCriterionReported", out.res = "ok" => Must(in) \subseteq Set(out.dq)>>,
     <<"OnlyViolatedCriteriaReported", out.res = "ok" => (Set(out.dq) \ WarningOnly) \subseteq May(in)>>,
     <<"OffCycleReadsAreWarnings", out.res = "ok" => (P \o "offcycle_reads_in_billing_monthly_data") \notin Set(out.dq)>>,
     <<"WarningsNeverInTheVerdict", out.res = "ok" => Set(out.dq) \cap (WarningOnly \ {P \o "offcycle_reads_in_billing_monthly_data"}) = {}>> >>
Failing(in, out) == LET c == Clauses(in, out) IN {c[k][1] : k \in {k \in 1..Len(c) : ~c[k][2]}}
=============================================================================
