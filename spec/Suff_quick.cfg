SPECIFICATION Spec
CONSTANTS
  Spans = {328, 329, 365, 366, 420}
  Classes = {"daily", "billing", "hourly"}
  StartSet <- StartsQuick
INVARIANT OracleSelfConsistent
INVARIANT MustWithinMay
INVARIANT ThresholdExact
INVARIANT LengthRule
INVARIANT PlacementsValid
