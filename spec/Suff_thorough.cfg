SPECIFICATION Spec
CONSTANTS
  Spans = {250, 328, 329, 330, 340, 364, 365, 366, 367, 400, 420}
  Classes = {"daily", "billing", "hourly"}
  StartSet <- StartsAll
INVARIANT OracleSelfConsistent
INVARIANT MustWithinMay
INVARIANT ThresholdExact
INVARIANT LengthRule
INVARIANT PlacementsValid
