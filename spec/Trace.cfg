SPECIFICATION Spec
