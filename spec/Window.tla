------------------------------- MODULE Window -------------------------------
(***************************************************************************)
(* C20 - the bounded state machine over WindowDefs: Init enumerates every  *)
(* abstract call, Call applies the I-layer (the code as written) and        *)
(* records in `lead` which P-layer clauses that outcome fails.              *)
(***************************************************************************)
EXTENDS WindowDefs
----------------------------------------------------------------------------
\* bounded input space
CONSTANTS MaxT, MaxLen, MaxDaysSet, NdSet
VARIABLES in, out, pc, lead     \* lead: P-clauses the I-layer outcome fails (design-level findings)
vars == <<in, out, pc, lead>>

Indexes == {SortedSeq(S) : S \in {S \in SUBSET (0..MaxT) : Cardinality(S) \in 1..MaxLen}}
Lims == -1..(MaxT + 1)
Opt(S) == {[has |-> FALSE, v |-> 0]} \cup {[has |-> TRUE, v |-> x] : x \in S}

Init ==
  /\ \E k \in {"baseline", "reporting"}, ix \in Indexes, e \in Opt(Lims), s \in Opt(Lims), m \in Opt(MaxDaysSet),
        ov \in BOOLEAN, ig \in BOOLEAN, nd \in Opt(NdSet) :
       /\ (m.has => IF k = "baseline" THEN ~s.has ELSE ~e.has)      \* the API refuses max_days with the soft limit
       /\ (nd.has => k = "baseline")
       /\ (s.has /\ e.has => s.v <= e.v)
       /\ \E vs \in [1..Len(ix) -> {"fin", "nan"}] :
            in = [kind |-> k, idx |-> ix, vals |-> vs, hasEnd |-> e.has, endp |-> e.v, hasStart |-> s.has, startp |-> s.v,
                  hasMax |-> m.has, maxd |-> m.v, overshoot |-> ov, ignoregap |-> ig, hasNd |-> nd.has, ndover |-> nd.v]
  /\ out = [res |-> "pending"] /\ pc = "call" /\ lead = {}
Call == pc = "call" /\ out' = ICall(in) /\ lead' = Failing(in, ICall(in)) /\ pc' = "done" /\ UNCHANGED in
Next == Call
Spec == Init /\ [][Next]_vars

\* I => P, clause by clause, so that TLC names what the code's design breaks
IImpliesP == lead = {}
NoLeakI == pc = "done" /\ out.res = "ok" => \A t \in Elems(out.oidx) : t \in Side(in)
DedicatedErrorI == pc = "done" => out.res \in {"ok", "nodata"}
\* oracle sanity: the P-layer always admits at least one outcome shape
POracleTotal == Windows(in) # {}
=============================================================================
