----------------------------- MODULE WindowDefs -----------------------------
(***************************************************************************)
(* C20 - baseline / reporting window selection on an integer timeline.     *)
(*                                                                         *)
(* P-layer: Clauses(in, out) - exactly what the property statement demands *)
(*   of one call of get_baseline_data / get_reporting_data.                *)
(* I-layer: ICall(in) - what opendsm/eemeter/common/transform.py does      *)
(*   today, step by step (end_limit adjustment, start target, nearest      *)
(*   lookup, slicing, NoData test, warnings).                              *)
(* TLC checks I => P over every input of the bounded space; the trace      *)
(* specification WindowTrace.tla judges recorded calls of the real code    *)
(* against the P-layer only.                                               *)
(*                                                                         *)
(* All values are JSON-shaped (records, sequences, ints, strings, bools)   *)
(* so that the same record travels TLC -> driver -> TLC.                   *)
(*   in  = [kind, idx, vals, hasEnd, endp, hasStart, startp, hasMax, maxd, *)
(*          overshoot, ignoregap, hasNd, ndover]                           *)
(*   out = [res, oidx, sameVals, lastBlank, inputSame, warns]              *)
(* Reading decisions (DESIGN 9.3): an explicit limit combined with         *)
(* overshoot may be honoured either strictly or by the nearest boundary;   *)
(* with ignore_billing_period_gap_for_day_count the day count may start at *)
(* the requested limit or (gap within tolerance) at the last/first datum,  *)
(* and no gap warning is demanded (the option's documented purpose, pinned by the repository's   *)
(* own tests); a window whose rows are all null may raise NoData or be     *)
(* returned.                                                               *)
(***************************************************************************)
EXTENDS Integers, Sequences, FiniteSets, FiniteSetsExt, SequencesExt, TLC

Elems(s) == {s[i] : i \in 1..Len(s)}
Abs(x) == IF x < 0 THEN -x ELSE x
SortedSeq(S) == SetToSortSeq(S, <)
ValAt(in, t) == LET i == CHOOSE i \in 1..Len(in.idx) : in.idx[i] = t IN in.vals[i]
HasNonNull(in, W) == \E t \in W : ValAt(in, t) = "fin"
NearestSet(S, t) == LET d == Min({Abs(x - t) : x \in S}) IN {x \in S : Abs(x - t) = d}

IsBase(in) == in.kind = "baseline"
\* The bounded model's timeline is in half-days: limits can fall between whole-day distances, while max_days and the
\* overshoot tolerance are whole days (U(in) units each).  Recorded calls of real executions (repository tests) carry their
\* own resolution in `u` (86400: seconds).
U(in) == IF "u" \in DOMAIN in THEN in.u ELSE 2
\* rows on the permitted side of the hard limit (end for baseline, start for reporting)
Side(in) == IF IsBase(in) THEN {t \in Elems(in.idx) : in.hasEnd => t <= in.endp}
                          ELSE {t \in Elems(in.idx) : in.hasStart => t >= in.startp}

----------------------------------------------------------------------------
\* P-layer
\* the instants max_days may be counted from
\* With ignore_billing_period_gap_for_day_count the count may start at the last datum before the requested end - but only
\* while the gap between them is within n_days_billing_period_overshoot (any gap when that is None).  A gap of exactly the
\* tolerance is accepted either way (the documentation does not say whether the bound is inclusive).
GapTolerated(in) == ~in.hasNd \/ in.endp - U(in) * in.ndover <= Max(Side(in))
Anchors(in) ==
  IF IsBase(in)
  THEN (IF in.hasEnd THEN {in.endp} ELSE {})
       \cup (IF in.hasEnd /\ in.ignoregap /\ Side(in) # {} /\ GapTolerated(in) THEN {Max(Side(in))} ELSE {})
  ELSE (IF in.hasStart THEN {in.startp} ELSE {}) \cup (IF in.hasStart /\ in.ignoregap /\ Side(in) # {} THEN {Min(Side(in))} ELSE {})
\* soft limits (start for baseline, end for reporting); {} means unbounded
Targets(in) ==
  IF IsBase(in)
  THEN IF in.hasStart THEN {in.startp} ELSE IF in.hasEnd /\ in.hasMax THEN {a - U(in) * in.maxd : a \in Anchors(in)} ELSE {}
  ELSE IF in.hasEnd THEN {in.endp} ELSE IF in.hasStart /\ in.hasMax THEN {a + U(in) * in.maxd : a \in Anchors(in)} ELSE {}
Cut(in, lim) == IF IsBase(in) THEN {t \in Side(in) : t >= lim} ELSE {t \in Side(in) : t <= lim}
WindowsFor(in, tg) ==
  IF ~in.overshoot THEN {Cut(in, tg)}
  ELSE IF Side(in) = {} THEN {{}}
  ELSE {Cut(in, b) : b \in NearestSet(Side(in), tg)}
        \cup (IF (IsBase(in) /\ in.hasStart) \/ (~IsBase(in) /\ in.hasEnd) THEN {Cut(in, tg)} ELSE {})
Windows(in) == IF Targets(in) = {} THEN {Side(in)} ELSE UNION {WindowsFor(in, tg) : tg \in Targets(in)}

\* the index is strictly increasing, so a slice is determined by the position of its first element (linear, for long traces)
IsSlice(in, o) == Len(o) = 0 \/ (\E a \in 1..Len(in.idx) : in.idx[a] = o[1] /\ a + Len(o) - 1 <= Len(in.idx) /\ o = SubSeq(in.idx, a, a + Len(o) - 1))
\* A gap at the HARD limit (end for baseline, start for reporting) must be warned unless the caller asked to ignore
\* the gap; a gap at the SOFT limit must be warned unless overshoot lets the function move that limit to a boundary.
GapWarnDue(in, w) ==
  LET gap  == IF w = "gap_end" THEN in.hasEnd /\ Max(Elems(in.idx)) < in.endp
                                ELSE in.hasStart /\ in.startp < Min(Elems(in.idx))
      hard == (w = "gap_end") = IsBase(in)
  IN gap /\ (IF hard THEN ~in.ignoregap ELSE ~in.overshoot)

\* each clause: <<name, holds>>
Clauses(in, out) ==
  LET side == Side(in)            \* evaluated once per call (long recorded traces)
      wins == Windows(in)
      got  == Elems(out.oidx) IN
  << <<"DedicatedErrorOrResult", out.res \in {"ok", "nodata"}>>,
     <<"NoDataOnlyWhenEmpty", out.res = "nodata" => \E W \in wins : ~HasNonNull(in, W)>>,
     <<"ResultWhenData", out.res = "ok" => Len(out.oidx) >= 1>>,
     <<"NoLeak", out.res = "ok" => got \subseteq side>>,
     <<"ContiguousSlice", out.res = "ok" => IsSlice(in, out.oidx)>>,
     <<"WindowBounds", out.res = "ok" => got \in wins>>,
     <<"ValuesUnchanged", out.res = "ok" => out.sameVals>>,
     <<"LastRowBlank", out.res = "ok" => out.lastBlank>>,
     <<"InputUnchanged", out.res \in {"ok", "nodata"} => out.inputSame>>,
     <<"GapAtEndWarned", (out.res = "ok" /\ GapWarnDue(in, "gap_end")) => "gap_end" \in Elems(out.warns)>>,
     <<"GapAtStartWarned", (out.res = "ok" /\ GapWarnDue(in, "gap_start")) => "gap_start" \in Elems(out.warns)>> >>
Failing(in, out) == LET c == Clauses(in, out) IN {c[k][1] : k \in {k \in 1..Len(c) : ~c[k][2]}}
Admissible(in, out) == Failing(in, out) = {}

----------------------------------------------------------------------------
\* I-layer: the code as written
NearestCode(S, t) == Max(NearestSet(S, t))          \* pandas: ties go to the larger label
WarnSeq(S) == (IF "gap_end" \in S THEN <<"gap_end">> ELSE <<>>) \o (IF "gap_start" \in S THEN <<"gap_start">> ELSE <<>>)
IOk(in, W, warns) == [res |-> "ok", oidx |-> SortedSeq(W), sameVals |-> TRUE, lastBlank |-> TRUE,
                      inputSame |-> TRUE, warns |-> WarnSeq(warns)]
IErr(r) == [res |-> r, oidx |-> <<>>, sameVals |-> TRUE, lastBlank |-> TRUE, inputSame |-> TRUE, warns |-> <<>>]

IBaseline(in) ==
  LET side == Side(in) IN
  IF side = {} THEN IErr("nodata")
  ELSE
  LET dataEnd   == Max(side)
      moved     == in.ignoregap /\ (~in.hasNd \/ ~in.hasEnd \/ in.endp - U(in) * in.ndover < dataEnd)
      endLimit  == IF moved \/ ~in.hasEnd THEN dataEnd ELSE in.endp       \* when end is None only warnings would see it
      hasTarget == (in.hasEnd /\ in.hasMax) \/ in.hasStart
      target    == IF in.hasEnd /\ in.hasMax THEN endLimit - U(in) * in.maxd ELSE in.startp
      startLim  == IF in.overshoot THEN (IF hasTarget THEN NearestCode(side, target) ELSE Min(side)) ELSE target
      W         == IF in.overshoot \/ hasTarget THEN {t \in side : t >= startLim} ELSE side
      warns     == (IF in.hasEnd /\ Max(Elems(in.idx)) < endLimit THEN {"gap_end"} ELSE {})
                   \cup (IF in.hasStart /\ startLim < Min(Elems(in.idx)) THEN {"gap_start"} ELSE {})
  IN IF ~HasNonNull(in, W) THEN IErr("nodata") ELSE IOk(in, W, warns)

IReporting(in) ==
  LET side == Side(in) IN
  IF side = {} THEN IErr("nodata")
  ELSE
  LET startLim  == IF in.ignoregap \/ ~in.hasStart THEN Min(side) ELSE in.startp
      hasTarget == (in.hasStart /\ in.hasMax) \/ in.hasEnd
      target    == IF in.hasStart /\ in.hasMax THEN startLim + U(in) * in.maxd ELSE in.endp
      endLim    == IF in.overshoot THEN (IF hasTarget THEN NearestCode(side, target) ELSE Max(side)) ELSE target
      W         == IF in.overshoot \/ hasTarget THEN {t \in side : t <= endLim} ELSE side
      warns     == (IF in.hasEnd /\ Max(Elems(in.idx)) < endLim THEN {"gap_end"} ELSE {})
                   \cup (IF in.hasStart /\ startLim < Min(Elems(in.idx)) THEN {"gap_start"} ELSE {})
  IN IF ~HasNonNull(in, W) THEN IErr("nodata") ELSE IOk(in, W, warns)

ICall(in) == IF IsBase(in) THEN IBaseline(in) ELSE IReporting(in)

=============================================================================
