---------------------------- MODULE WindowTrace ----------------------------
(* Trace validation for C20: every recorded call of get_baseline_data /      *)
(* get_reporting_data (abstract input + projected outcome) must satisfy the   *)
(* P-layer of WindowDefs.  One TLC step per recorded call; a rejected call is *)
(* printed with the names of the clauses it fails and validation continues.   *)
EXTENDS WindowDefs, Json, IOUtils, TLCExt
Cases == JsonDeserialize(IOEnv.TRACE_FILE)
VARIABLES i, nrej
Init == i = 1 /\ nrej = 0
Next == /\ i <= Len(Cases)
        /\ LET c == Cases[i]
               f == Failing(c.in, c.out)
           IN IF f = {} THEN nrej' = nrej
              ELSE PrintT(<<"REJECT", c.id, f>>) /\ nrej' = nrej + 1
        /\ i' = i + 1
Spec == Init /\ [][Next]_<<i, nrej>>
=============================================================================
