SPECIFICATION Spec
CONSTANTS
  MaxT = 4
  MaxLen = 3
  MaxDaysSet = {1, 2}
  NdSet = {0, 1}
INVARIANT NoLeakI
INVARIANT POracleTotal
