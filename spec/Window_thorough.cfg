SPECIFICATION Spec
CONSTANTS
  MaxT = 6
  MaxLen = 4
  MaxDaysSet = {1, 2, 3}
  NdSet = {0, 1, 2}
INVARIANT NoLeakI
INVARIANT POracleTotal
