SPECIFICATION Spec
CONSTANTS
  Slots = {"s1", "s2"}
  DataIds = {"b:gaps", "b:east", "b:poor", "r:wmonth:orig", "r:weast:orig", "x:wmonth", "r:wday:orig"}
  Cat <- CatAll
  Fam = "hourly"
  Profs = {"supp"}
  Seeds = {1}
  Template <- T_gate
  IgnSet = {TRUE, FALSE}
  AggSet = {"None"}
INVARIANT GateClosed
INVARIANT GateClosedSweep
INVARIANT GateFailClosed
INVARIANT FitRaisesExactlyWhenDisqualified
INVARIANT GateSurvivesStorage
INVARIANT Deterministic
PROPERTY PredictPure
PROPERTY OnlySlotChanges
PROPERTY StoreAppendOnly
