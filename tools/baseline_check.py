#!/usr/bin/env python3
"""Run the pinned repository test-suite (hook guard OFF) and compare with /root/.vp/BASELINE.json.
Exit 0 iff every test of BASELINE.stable_pass still passes."""
import json, os, subprocess, sys, tempfile, xml.etree.ElementTree as ET
base = json.load(open("/root/.vp/BASELINE.json"))
env = {k: v for k, v in os.environ.items() if not k.startswith("OPENDSM_EEMETER_VERIF")}
with tempfile.TemporaryDirectory(prefix="verif_baseline_") as td:
    out = os.path.join(td, "junit.xml")
    cmd = ["/venv/bin/python", "-m", "pytest", "-ra", "-q", "-p", "no:cacheprovider", "--timeout=900",
           "--continue-on-collection-errors", "--junitxml=" + out] + sys.argv[1:]
    tree = os.environ.get("VERIF_SUITE_DIR", "/repo")        # a scratch worktree with a seeded change (tools/confirm_seeded_suite.sh)
    if tree != "/repo":
        env["PYTHONPATH"] = tree
    subprocess.run(cmd, cwd=tree, env=env, stdout=subprocess.DEVNULL, stderr=subprocess.DEVNULL)
    passed = set()
    for tc in ET.parse(out).getroot().iter("testcase"):
        if not any(ch.tag in ("failure", "error", "skipped") for ch in tc):
            passed.add(tc.get("classname") + "::" + tc.get("name"))
missing = [t for t in base["stable_pass"] if t not in passed]
print("passed=%d baseline=%d missing=%d" % (len(passed), len(base["stable_pass"]), len(missing)))
for t in missing:
    print("MISSING", t)
sys.exit(1 if missing else 0)
