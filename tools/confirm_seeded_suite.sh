#!/bin/sh
# usage: tools/confirm_seeded_suite.sh [pattern]   every seeded change must keep the pinned test-suite's baseline passing:
# applies each patch to a scratch worktree and runs the pinned suite there (guard off); prints "<id> passed=.. baseline=208 missing=.."
cd "$(dirname "$0")/.." || exit 2
for d in $(if [ $# -gt 1 ]; then for x in "$@"; do echo seeded/$x/; done; else echo seeded/${1:-*}/; fi); do
  id=$(basename "$d")
  WT=/tmp/wt_suite_$$_$id
  git -C /repo worktree add -q --detach "$WT" HEAD || continue
  if git -C "$WT" apply "$PWD/$d/patch.diff" 2>/dev/null; then
    echo "$id $(VERIF_SUITE_DIR=$WT python3 tools/baseline_check.py 2>/dev/null | head -1)"
  else
    echo "$id patch does not apply"
  fi
  git -C /repo worktree remove --force "$WT"; rm -rf "$WT"
done
