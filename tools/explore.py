#!/usr/bin/env python3
"""Triage helper: run a pure module's three stages and print ALL rejections grouped by failing clauses (not only the first ten).
usage: /venv/bin/python tools/explore.py <prop> [tier] [kind]"""
import json, sys, collections
sys.path.insert(0, "/verif")
from engine import registry, runner, pure, common
prop = sys.argv[1]; tier = sys.argv[2] if len(sys.argv) > 2 else "quick"; kind = sys.argv[3] if len(sys.argv) > 3 else None
common.setup_env()
ent = registry._REG[prop]()
SPECS = {"C12": registry._fit, "C07": lambda: registry._rowframe("C07"), "C06": lambda: registry._rowframe("C06")}
spec = ent.spec if hasattr(ent, "spec") else SPECS[prop]()
model = runner.model_stage(spec, tier)
states, total = pure.select_states(model["dump"], spec.sample[tier], prop, keep=lambda b: spec.keep in b, always=spec.always)
if spec.case_filter: states = [s for s in states if spec.case_filter(s[spec.in_field])]
if kind: states = [s for s in states if s[spec.in_field].get("kind") == kind]
r = common.rng("variants", prop)
jobs = []
for s in states:
    for v in spec.variants(tier, r, s[spec.in_field]):
        jobs.append((len(jobs), s[spec.in_field], v))
cases = pure.replay(spec.driver, jobs)
rej, _ = pure.validate(spec.trace_module, cases, "explore")
groups = collections.defaultdict(list)
for c in cases:
    if c["id"] in rej: groups[tuple(rej[c["id"]])].append(c)
print(len(cases), "cases", len(rej), "rejected")
json.dump([dict(c, clauses=rej[c["id"]]) for c in cases if c["id"] in rej], open("/verif/.work/explore_rejects.json", "w"))
for k, v in sorted(groups.items(), key=lambda kv: -len(kv[1])):
    print(len(v), k)
    for c in v[:4]:
        print("    ", c.get("variant"), json.dumps(c["in"])[:300]); print("       ->", json.dumps(c["out"])[:400])
