#!/usr/bin/env python3
"""Regenerate /verif/MANIFEST.json from the per-property table below (single source of truth)."""
import json, os, subprocess
V = os.path.dirname(os.path.dirname(os.path.abspath(__file__)))
props = [json.loads(l)["id"] for l in open(os.path.join(V, "properties.jsonl"))]

LIFE_NOTE = ("Trusted: TLC, the SHA-256 projections in drivers/lifeworld.py, the catalogue of synthetic meters (drivers/lifecat.py). "
             "The abstract attributes of data objects are measured from the real objects and bound from the trace. Histories are bounded "
             "(<= 8 calls, <= 2 slots, <= 3 processes); the quick tier replays a seeded sample of the histories TLC enumerates.")
LIFE_TEXT = ("Lifecycle.tla (P-layer state machine of model/data objects, document store, restarts) is model-checked by TLC for the life-cycle "
             "theorems; every maximal history of a scenario template is dumped, a seeded sample is executed on the real library "
             "(real worker processes for restarts and schedules) and the recorded execution - one event per public call with the whole-state "
             "projection - is validated step by step by TLC against LifecycleTrace.tla; ")
CLAIMED = {
 "C01": dict(engine="Lifecycle", design="6 C01", text=LIFE_TEXT + "clauses: load succeeds, re-serialises to the same document, keeps timezone / warnings / disqualifications, predicts the same bytes after reload (interp map).", note=LIFE_NOTE + " The formula clause is decided under C11/C12 (DailyCurve)."),
 "C02": dict(engine="Lifecycle", design="6 C02", text=LIFE_TEXT + "clauses: PredictPure (whole-state projection unchanged by predict), fit/load/make leave every other object alone, frames handed out are copies, caller frames untouched, prediction of a dataset independent of earlier predictions.", note=LIFE_NOTE),
 "C03": dict(engine="Lifecycle", design="6 C03", text=LIFE_TEXT + "plus Schedule.tla: TLC enumerates every assignment/order of a 3-meter batch on up to 3 cold worker processes x thread counts x warm kinds; sampled schedules run as real OS processes; one interp map over the whole batch demands one hash per (family, profile, seed, baseline).", note=LIFE_NOTE + " OS-level timing interleavings are not controlled."),
 "C04": dict(engine="Lifecycle", design="6 C04", text=LIFE_TEXT + "clauses: fit returns or raises DataSufficiencyError exactly when the data carries a disqualification and the override is off; predict's outcome class follows Faults(model, data, flags); the model carries the data's and the poor-fit disqualification; the gate survives save/restart/load.", note=LIFE_NOTE + " Decided for the three gated families (daily, billing, hourly)."),
 "C05": dict(engine="Lifecycle", design="6 C05", text=LIFE_TEXT + "clause PredSameAcrossObservedVariants: probe vectors of predictions for observed-variants {orig, x3, shuffled, 30% NaN, all NaN, absent} of the same weather must agree wherever both produce a value; a variant may not make predict raise.", note=LIFE_NOTE + " Compared at 48 probe timestamps per report plus the full-column hash per variant."),
 "C06": dict(engine="Clock", design="6 C06", text="ClockDefs.tla states the hourly 24-slot normalisation (day kinds N, S@h, F@h) with a P-layer (one value per real clock hour from the slot of its own day and hour) and an I-layer transcribing _get_dst_indices/_transform_dst; TLC checks I => P over all day-kind sequences of four zone classes. Every enumerated sequence is replayed at function level (real functions, slot-number codes decoded to labels) and API level (HourlyModel.predict on real contiguous frames around real transitions found with zoneinfo, observed present/blank/absent) and judged by TLC (ClockTrace); thorough sweeps the normalisation step over every 23/25-hour day of every IANA zone 2000-2037. The daily/billing half (row per timestamp, finite exactly on usable rows) is the RowFrame stage.",
             note="Trusted: TLC, zoneinfo's tz database as the source of real transitions, the label decoding in drivers/clock.py. Half-hour clock changes (Australia/Lord_Howe) are outside the three day kinds: recorded as an open known finding, judged only by row count and outcome."),
 "C07": dict(engine="RowFrame", design="6 C07", text="RowFrameDefs.tla states per-row presence (predicted exactly on usable rows, observed masked together, observed column iff supplied), the documented formula on integer parameters and the column-sum identities; TLC enumerates every pattern of <= 5 rows over temperature {finite, NaN, +-inf} x usage {value, missing} for daily and billing; each is embedded in real reporting frames (4 zones, 30-366 days / calendar months) and predicted with constructed integer documents; recorded frames are re-measured on the data object and judged row by row by TLC (RowFrameTrace).",
             note="Trusted: TLC, integer exactness of the realisation (all values exact in binary64), drivers/rowframe.py projection. Single-sub-model documents (routing is C13)."),
 "C10": dict(engine="Suff", design="6 C10", text="SuffDefs.tla states every published criterion on integers (span, countable days = span-1, 10*valid < 9*span, per-month rules with the civil calendar of Cal.tla under both readings of 'calendar month', negative non-electric usage) as Must/May verdict sets and the list of warning-only names; Suff.tla enumerates class x role x fuel x start x span x gap counts at every threshold -1/0/+1 x placements and checks the oracle's threshold theorems; a seeded sample (thorough: 12k x 4 variants) is realised as real daily / billing / hourly data objects through both entry points and the reported disqualification names are judged by TLC (SuffTrace).",
             note="Trusted: TLC, Cal.tla, drivers/suff.py. First/last day always valid; exact-threshold cases in DST-free zones; billing usage gaps left to C08. Open finding: off-cycle reads filed as disqualification by the billing classes."),
 "C11": dict(engine="Curve", design="6 C11", text="CurveDefs.tla states the documented piecewise formula from a stored sub-model's parameters alone on exact rationals (Rat.tla): base load on the flat part, exact straight lines on unsmoothed sides, and for smoothed sides the bounds asymptote <= curve <= line through the shifted balance point with the smoothing widths derived by rational algebra (renormalisation above 1, 1 % floor), curve >= base load, monotone outwards, gap to the asymptote never growing outwards, loads non-negative / exclusive / additive / on the right side; Curve.tla checks the formula's own theorems (ordered bounds, continuity at the balance points, monotone bounds) with TLC and enumerates the seven shapes over a parameter grid with probes on and around every landmark; each document is loaded with from_dict and swept through DailyModel and BillingModel.predict, projected to floor/ceiling of 1000x and to exact rationals, and judged by TLC (CurveTrace).",
             note="Trusted: TLC, Rat.tla, drivers/curve.py. The value of the exponential is not computed by the specification: smoothed sides are bounded, not pinned (bound width = slope x smoothing width far from the balance point)."),
 "C13": dict(engine="Split", design="6 C13", text="SplitDefs.tla states exact cover of the (season x day-type) calendar, presence of the unsplit model, forbidden / unsupported splits, the routing function RouteIdx (civil calendar + season and weekday maps) and the selection clause, plus an I-layer of the candidate generator on sets; Split.tla checks with TLC that the generator equals the closed form (48 candidates), that every kept candidate is an exact cover and respects flags and support for all 16 flag vectors x support classes, and that every date has one route. Candidate cases run the real DailyModel._combinations(), routing cases predict constructed split documents for every day of every month of 2023/2024 under 3x3 maps, selection cases are real fits; all judged by TLC (SplitTrace).",
             note="Trusted: TLC, Cal.tla, drivers/split.py (string parsing of split names, stub tidd sub-models with distinct constants). Completeness of the candidate list is not demanded (not in the statement)."),
 "C14": dict(engine="Settings", design="6 C14", text="SettingsTable.tla pins, as literal TLA+, the approved constant, developer flag, a valid alternative and an invalid value of all 174 fields of the current / legacy / billing / hourly settings trees; SettingsDefs.tla states the lock (developer field + alternative without developer mode => rejected), rejection of invalid values, acceptance of permitted ones with only the requested field changed, 14 cross-field cases and stored-settings equality; Settings.tla enumerates the whole space (5.6k constructions) which is replayed exhaustively on real DailyModel / BillingModel / HourlyModel constructors, every outcome judged by TLC (SettingsTrace).",
             note="Trusted: TLC, the pinned table (generated once from the code by tools/gen_settings_table.py, then frozen), drivers/settings.py (canonical JSON of dumped values, numbers compared as numbers)."),
 "C16": dict(engine="Metrics", design="6 C16", text="MetricsDefs.tla computes n, SSE, MSE, RMSE^2 and its adjusted form, MAE, bias, CVRMSE^2, PNRMSE^2 (IQR by linear interpolation of order statistics), NMAE, NMBE, R^2, lag-1 autocorrelation (rho^2, sign, n' through ((n-n')/(n+n'))^2) and savings as exact rationals (Rat.tla) with 'undefined' where a denominator is not positive; Metrics.tla checks the identities the statement names and the hourly gate table with TLC and enumerates all integer series pairs of length 2-3 with non-finite markers; the real BaselineMetrics / ReportingMetrics are run on every sampled pair and on seeded longer series, values snapped to rationals and compared by TLC; the 4x4 hourly gate table runs on the real _model_fit_is_acceptable; stored hourly metrics are compared with the metrics of predict(baseline) on non-interpolated rows and the poor-fit disqualification of 9 real fits with the gate on the reported statistic.",
             note="Trusted: TLC, Rat.tla (32-bit: numbers capped at 40000, correlation-type statistics only on short series), drivers/metrics.py snapping. Open findings: nmbe / nmae / cvrmse are numbers for non-positive observed means in the cases listed in known_findings.json."),
 "C17": dict(engine="Prep", design="6 C17", text="PrepDefs.tla states the per-cell rule of hourly data preparation (supplied finite value => kept and unflagged; not supplied - NaN, zero electric usage, absent row - => flagged and present unless the whole column is empty; a duplicated timestamp keeps its first row; gap-free whole-day index); Prep.tla enumerates every pattern of 2-3 consecutive hours over row x temperature x usage x irradiance classes, electric / gas; each pattern is embedded in real frames of 4..400 days (ragged edge days, DST change, leap day, empty usage column, background gaps) and the frame returned by HourlyBaselineData / HourlyReportingData is compared with the supplied one cell by cell, judged by TLC (PrepTrace).",
             note="Trusted: TLC, drivers/prep.py (construction of the supplied-truth frame, per-cell comparison). On-the-hour local input of at least 4 days."),
 "C18": dict(engine="Seg", design="6 C18", text="SegDefs.tla states the four month-weight tables (doubled integers), prediction routing, the temperature-bin function, the occupied/unoccupied split and hour-of-week; Seg.tla checks partition of unity, routing = inverse of full weight, the bin theorems and 24*dow+hour onto 0..167 with TLC and enumerates cases; every weight / routing case is decided on all hours of its month in a leap and a non-leap year and 2-4 zones against the real segment_time_series and a CalTRACKHourlyModel wired with provenance-tagged month models; bin, occupancy and time features are replayed on the real functions; all judged by TLC (SegTrace).",
             note="Trusted: TLC, drivers/seg.py (integer projection; stub month models that name their centre month)."),
 "C19": dict(engine="Agg", design="6 C19", text="AggDefs.tla states monthly / bi-monthly aggregation as sums, mean (rational) and root-sum-square (squared) of the daily rows of the same call, one row per calendar period, totals conserved, other arguments rejected; Agg.tla enumerates layouts (start dates incl. month ends and leap day, spans, gap and observed patterns, 7-10 argument spellings) with the civil calendar of Cal.tla and checks the oracle's own level-agreement theorems; every layout is realised as a billing reporting object in 4 zones, predicted at both levels and judged by TLC (AggTrace).",
             note="Trusted: TLC, Cal.tla, drivers/agg.py (integer realisation; rational snapping of means with limit_denominator(1000))."),
 "C20": dict(engine="Window", design="6 C20", text="TLC enumerates every abstract window call on an integer timeline (I-layer = transform.py as written, checked against the P-layer clauses); a seeded sample of those calls (thorough: 150k x 4 shapes) is executed on the real get_baseline_data/get_reporting_data and every recorded outcome is judged by TLC against the P-layer (WindowTrace).",
             note="Trusted: TLC, the projection in drivers/window.py (index mapping, equality of values), the reading decisions listed in the evidence assumptions. Spec-level exhaustiveness is relative to MaxT/MaxLen; real sizes are reached by scaling only."),
}
NA = {
 "C15": "numerical accuracy bound on an optimiser's output over a continuous parameter family: no discrete state or case analysis for a TLA+ specification to capture (DESIGN.md section 7)",
}
hooks_commits = []
try:
    out = subprocess.run(["git", "-C", "/repo", "log", "--format=%h %s"], capture_output=True, text=True).stdout
    hooks_commits = [l.split()[0] for l in out.splitlines() if l.split(" ", 1)[1].startswith("verif-hook:")]
except Exception:
    pass
checks = []
for p in props:
    if p in CLAIMED:
        c = CLAIMED[p]
        checks.append({
            "property_id": p,
            "quick_cmd": "./check %s --tier quick" % p,
            "thorough_cmd": "./check %s --tier thorough" % p,
            "evidence_file": "/verif/evidence/%s.json" % p,
            "replay_cmd_template": "./check %s --replay {path}" % p,
            "engine": c["engine"],
            "level_claimed": {"category": "model_checking", "text": c["text"], "design_ref": "DESIGN.md section " + c["design"]},
            "level_note": c["note"],
            "technique": "explicit TLA+ specification (spec/%s*.tla) model-checked with TLC; conformance by replaying TLC-enumerated abstract cases into the real code and validating the recorded outcomes against the specification's P-layer with TLC" % c["engine"],
        })
na = []
for p in props:
    if p not in CLAIMED:
        na.append({"property_id": p, "reason": NA.get(p, "check not built yet in this round - planned with the module named in DESIGN.md section 6; not claimed until its specification, driver and trace validation exist")})
man = {
 "version": 1,
 "setup_cmd": "./setup.sh",
 "hooks": {"guard": "OPENDSM_EEMETER_VERIF", "enable": "checks set OPENDSM_EEMETER_VERIF=1 in the environment of every driver process; /repo is imported from its working tree (editable install in /venv), nothing is built",
           "baseline_off_cmd": "python3 /verif/tools/baseline_check.py", "source_commits": hooks_commits, "add_only": True},
 "engines": [{"name": c["engine"], "path": "/verif/spec/%s.tla" % c["engine"], "serves_properties": [p for p in CLAIMED if CLAIMED[p]["engine"] == c["engine"]],
              "kind_free_text": "TLA+ module + TLC (model checking and trace validation) + python replay driver"} for c in {v["engine"]: v for v in CLAIMED.values()}.values()],
 "checks": checks,
 "not_applicable": na,
 "notes": "All verdicts come from TLC rejecting a recorded execution of the real code against a TLA+ P-layer; see DESIGN.md. known_findings.json lists repaired defects (fix: commits in /repo) and open findings.",
}
json.dump(man, open(os.path.join(V, "MANIFEST.json"), "w"), indent=1)
print("claimed", sorted(CLAIMED), "na", len(na))
