#!/usr/bin/env python3
"""Regenerate /verif/MANIFEST.json from the per-property table below (single source of truth)."""
import json, os, subprocess
V = os.path.dirname(os.path.dirname(os.path.abspath(__file__)))
props = [json.loads(l)["id"] for l in open(os.path.join(V, "properties.jsonl"))]

CLAIMED = {
 "C20": dict(engine="Window", design="6 C20", text="TLC enumerates every abstract window call on an integer timeline (I-layer = transform.py as written, checked against the P-layer clauses); a seeded sample of those calls (thorough: 150k x 4 shapes) is executed on the real get_baseline_data/get_reporting_data and every recorded outcome is judged by TLC against the P-layer (WindowTrace).",
             note="Trusted: TLC, the projection in drivers/window.py (index mapping, equality of values), the reading decisions listed in the evidence assumptions. Spec-level exhaustiveness is relative to MaxT/MaxLen; real sizes are reached by scaling only."),
}
NA = {
 "C15": "numerical accuracy bound on an optimiser's output over a continuous parameter family: no discrete state or case analysis for a TLA+ specification to capture (DESIGN.md section 7)",
}
hooks_commits = []
try:
    out = subprocess.run(["git", "-C", "/repo", "log", "--format=%h %s"], capture_output=True, text=True).stdout
    hooks_commits = [l.split()[0] for l in out.splitlines() if l.split(" ", 1)[1].startswith("verif-hook:")]
except Exception:
    pass
checks = []
for p in props:
    if p in CLAIMED:
        c = CLAIMED[p]
        checks.append({
            "property_id": p,
            "quick_cmd": "./check %s --tier quick" % p,
            "thorough_cmd": "./check %s --tier thorough" % p,
            "evidence_file": "/verif/evidence/%s.json" % p,
            "replay_cmd_template": "./check %s --replay {path}" % p,
            "engine": c["engine"],
            "level_claimed": {"category": "model_checking", "text": c["text"], "design_ref": "DESIGN.md section " + c["design"]},
            "level_note": c["note"],
            "technique": "explicit TLA+ specification (spec/%s*.tla) model-checked with TLC; conformance by replaying TLC-enumerated abstract cases into the real code and validating the recorded outcomes against the specification's P-layer with TLC" % c["engine"],
        })
na = []
for p in props:
    if p not in CLAIMED:
        na.append({"property_id": p, "reason": NA.get(p, "check not built yet in this round - planned with the module named in DESIGN.md section 6; not claimed until its specification, driver and trace validation exist")})
man = {
 "version": 1,
 "setup_cmd": "./setup.sh",
 "hooks": {"guard": "OPENDSM_EEMETER_VERIF", "enable": "checks set OPENDSM_EEMETER_VERIF=1 in the environment of every driver process; /repo is imported from its working tree (editable install in /venv), nothing is built",
           "baseline_off_cmd": "python3 /verif/tools/baseline_check.py", "source_commits": hooks_commits, "add_only": True},
 "engines": [{"name": c["engine"], "path": "/verif/spec/%s.tla" % c["engine"], "serves_properties": [p for p in CLAIMED if CLAIMED[p]["engine"] == c["engine"]],
              "kind_free_text": "TLA+ module + TLC (model checking and trace validation) + python replay driver"} for c in {v["engine"]: v for v in CLAIMED.values()}.values()],
 "checks": checks,
 "not_applicable": na,
 "notes": "All verdicts come from TLC rejecting a recorded execution of the real code against a TLA+ P-layer; see DESIGN.md. known_findings.json lists repaired defects (fix: commits in /repo) and open findings.",
}
json.dump(man, open(os.path.join(V, "MANIFEST.json"), "w"), indent=1)
print("claimed", sorted(CLAIMED), "na", len(na))
