#!/bin/sh
# usage: tools/regress_refactors.sh   every behaviour-preserving refactoring of refactors/ (14) against the checks of its area: all must stay silent
cd "$(dirname "$0")/.." || exit 2
export VERIF_DIR="$PWD"
run() { d=$1; shift; echo "== $d"; sh tools/try_refactor.sh "$PWD/refactors/$d" "$@"; }
run R01 C01 C02 C03 C04 C05
run R06 C06 C05 C17
run R07 C07 C19 C06 C11 C13 C01
run R08 C08 C09 C10
run R10 C10 C04
run R13 C13 C12
run R17 C17 C05 C06 C10
run R20 C20
run R21 C08 C09 C10 C07 C02
run R22 C16 C04
run R23 C14 C13 C03
run R24 C05 C06 C01 C02 C03 C14 C16
run R25 C07 C19 C06 C11 C13 C01 C02
run R26 C17 C18 C06 C05 C10 C02
