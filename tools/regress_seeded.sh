#!/bin/sh
# usage: tools/regress_seeded.sh [pattern]   re-run every seeded change (scratch worktrees) against the check(s) named in its meta.json
# prints one line per change: <id> <property> caught|MISSED
cd "$(dirname "$0")/.." || exit 2
for d in seeded/${1:-*}/; do
  id=$(basename "$d")
  props=$(python3 -c "
import json,sys,re
m=json.load(open('$d/meta.json'))
print(' '.join(sorted(m.get('detected_by',{}).keys())))")
  for p in $props; do
    out=$(sh tools/try_seeded_wt.sh "$PWD/$d" "$p" 2>&1)
    if echo "$out" | grep -q "^VIOLATION property=$p"; then echo "$id $p caught"; else echo "$id $p MISSED"; fi
  done
done
