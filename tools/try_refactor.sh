#!/bin/sh
# usage: tools/try_refactor.sh <dir with patch.diff> [properties...]   (default: every claimed property)
# A behaviour-preserving refactoring must leave every check silent: applies the patch to a scratch worktree under /tmp, points
# the quick checks at it (VERIF_REPO) and reports every check that exits non-zero or prints a VIOLATION line.
D="$1"; shift
PROPS="$@"
[ -z "$PROPS" ] && PROPS="C01 C02 C03 C04 C05 C06 C07 C08 C09 C10 C11 C12 C13 C14 C16 C17 C18 C19 C20"
WT=/tmp/wt_refactor_$$
git -C /repo worktree add -q --detach "$WT" HEAD || exit 2
trap 'git -C /repo worktree remove --force "$WT"; rm -rf "$WT"' EXIT
git -C "$WT" apply "$D/patch.diff" || { echo "patch does not apply"; exit 2; }
export PYTHONHASHSEED=0 NUMBA_CACHE_DIR=${VERIF_DIR:-/verif}/.work/numba_cache_wt VERIF_REPO="$WT" PYTHONPATH="$WT"
BAD=0
for P in $PROPS; do
  ( cd ${VERIF_DIR:-/verif} && ./check "$P" --tier quick > /tmp/refcheck_$$_$P.out 2>&1; echo "$P exit=$? violations=$(grep -c '^VIOLATION' /tmp/refcheck_$$_$P.out) :: $(tail -1 /tmp/refcheck_$$_$P.out | cut -c1-160)" )
done
