#!/bin/sh
# usage: tools/try_revert.sh <fix commit> <property> [more properties]
# "A fixed entry suppresses nothing": reverts one fix: commit in a scratch worktree (never in /repo) and runs the named quick
# checks against it; each must report the violation again (exit 1 with a VIOLATION line).
C="$1"; shift
WT=/tmp/wt_revert_$$
git -C /repo worktree add -q --detach "$WT" HEAD || exit 2
trap 'git -C /repo worktree remove --force "$WT"; rm -rf "$WT"' EXIT
git -C "$WT" show "$C" -- opendsm | git -C "$WT" apply -R --3way 2>/dev/null || git -C "$WT" show "$C" -- opendsm | git -C "$WT" apply -R || { echo "$C does not revert cleanly"; exit 2; }
export PYTHONHASHSEED=0 NUMBA_CACHE_DIR=${VERIF_DIR:-/verif}/.work/numba_cache_wt VERIF_REPO="$WT" PYTHONPATH="$WT"
for P in "$@"; do
  ( cd ${VERIF_DIR:-/verif} && ./check "$P" --tier quick > /tmp/revcheck_$$_$P.out 2>&1; echo "$C $P exit=$? violations=$(grep -c '^VIOLATION' /tmp/revcheck_$$_$P.out) clauses=$(grep '^VIOLATION' /tmp/revcheck_$$_$P.out | sed 's/.*clauses=//' | cut -d' ' -f1 | tr ',' '\n' | sort | uniq -c | sort -rn | head -3 | awk '{printf "%s(%s) ", $2, $1}') :: $(grep -v '^KNOWN' /tmp/revcheck_$$_$P.out | tail -1 | cut -c1-120)" )
done
