#!/bin/sh
# usage: tools/try_seeded.sh <dir with patch.diff and demo_*.py> <property> [more properties...]
# Applies the seeded change to /repo, confirms it (demo fails with it, passes without it, pinned baseline still passes),
# runs the named quick checks against it, and always restores /repo.
D="$1"; shift
cd /repo || exit 2
git diff --quiet || { echo "/repo has uncommitted changes"; exit 2; }
DEMO=$(ls "$D"/demo_*.py | head -1)
echo "== demo on the unchanged tree"; PYTHONHASHSEED=0 NUMBA_CACHE_DIR=/verif/.work/numba_cache /venv/bin/python "$DEMO" > /tmp/demo_clean.out 2>&1; echo "exit=$?"; tail -2 /tmp/demo_clean.out
git apply "$D/patch.diff" || { echo "patch does not apply"; exit 2; }
trap 'git -C /repo checkout -- . ' EXIT
echo "== demo with the change"; PYTHONHASHSEED=0 NUMBA_CACHE_DIR=/verif/.work/numba_cache /venv/bin/python "$DEMO" > /tmp/demo_mut.out 2>&1; echo "exit=$?"; tail -3 /tmp/demo_mut.out
if [ -z "$SKIP_BASELINE" ]; then echo "== pinned baseline with the change"; python3 /verif/tools/baseline_check.py | tail -3; fi
for P in "$@"; do
  echo "== check $P with the change"
  ( cd /verif && ./check "$P" --tier quick > /tmp/check_$P.out 2>&1; echo "exit=$?"; grep -c "^VIOLATION" /tmp/check_$P.out; grep "^VIOLATION" /tmp/check_$P.out | head -3; tail -1 /tmp/check_$P.out )
done
