#!/bin/sh
# usage: tools/try_seeded_wt.sh <dir with patch.diff and demo_*.py> <property> [more properties...]
# Like try_seeded.sh, but leaves /repo alone: the change is applied to a scratch worktree under /tmp and the checks are
# pointed at it with PYTHONPATH (the editable finder of /venv comes after sys.path).  For use while something else needs /repo clean.
D="$1"; shift
VERIF="$(cd "$(dirname "$0")/.." && pwd)"
WT=/tmp/wt_seeded_$$
git -C /repo worktree add -q --detach "$WT" HEAD || exit 2
trap 'git -C /repo worktree remove --force "$WT"; rm -rf "$WT"' EXIT
DEMO=$(ls "$D"/demo_*.py | head -1)
export PYTHONHASHSEED=0 NUMBA_CACHE_DIR="$VERIF/.work/numba_cache_wt" VERIF_REPO="$WT"
echo "== demo on the unchanged tree"; PYTHONPATH="$WT" /venv/bin/python "$DEMO" > /tmp/demo_clean_$$.out 2>&1; echo "exit=$?"; tail -2 /tmp/demo_clean_$$.out
git -C "$WT" apply "$D/patch.diff" || { echo "patch does not apply"; exit 2; }
echo "== demo with the change"; PYTHONPATH="$WT" /venv/bin/python "$DEMO" > /tmp/demo_mut_$$.out 2>&1; echo "exit=$?"; tail -3 /tmp/demo_mut_$$.out
for P in "$@"; do
  echo "== check $P with the change"
  ( cd "$VERIF" && PYTHONPATH="$WT" ./check "$P" --tier quick > /tmp/check_${P}_$$.out 2>&1; echo "exit=$?"; grep -c "^VIOLATION" /tmp/check_${P}_$$.out; grep "^VIOLATION" /tmp/check_${P}_$$.out | head -3; tail -1 /tmp/check_${P}_$$.out )
done
