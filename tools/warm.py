"""Warm the private numba cache (daily kernels) so quick checks do not pay JIT compilation."""
import logging, sys, warnings
warnings.simplefilter("ignore"); logging.disable(logging.CRITICAL)
sys.path.insert(0, "/repo")
import numpy as np, pandas as pd
try:
    import opendsm.eemeter as em
    n = 365
    idx = pd.date_range("2019-01-01", periods=n, freq="D", tz="America/Chicago")
    T = 55 + 25 * np.sin(2 * np.pi * (np.arange(n) - 110) / 365) + np.random.default_rng(0).normal(0, 4, n)
    obs = 20 + np.maximum(50 - T, 0) + 1.5 * np.maximum(T - 65, 0) + np.random.default_rng(1).normal(0, 1, n)
    b = em.DailyBaselineData(pd.DataFrame({"temperature": T, "observed": obs}, index=idx), is_electricity_data=True)
    em.DailyModel(model="legacy").fit(b, ignore_disqualification=True)
    print("numba cache warmed")
except Exception as ex:          # warming is an optimisation only
    print("warm-up skipped: %s: %s" % (type(ex).__name__, ex))
